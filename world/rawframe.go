package world

import (
	"encoding/binary"
	"errors"
	"fmt"
	"strconv"

	"verif/shim/vnet"
)

// Frame is an independent model of one raw-protocol frame (written from the
// format comment in socket/protocol.go, not from the code).
type Frame struct {
	Seq    int32
	Mtype  byte
	Method string
	Status string // url-encoded status, "" = none
	Meta   string // url-encoded metadata
	Codec  byte
	Body   []byte
	Pipe   []byte
}

func (f Frame) String() string {
	return fmt.Sprintf("{seq=%d t=%d m=%q st=%q meta=%q c=%d body=%q pipe=%v}", f.Seq, f.Mtype, f.Method, f.Status, f.Meta, f.Codec, f.Body, f.Pipe)
}

// Bytes encodes the frame (no transfer filters applied: Pipe must be empty or the payload pre-filtered).
func (f Frame) Bytes() []byte {
	var p []byte
	seq := strconv.FormatInt(int64(f.Seq), 36)
	p = append(p, byte(len(seq)))
	p = append(p, seq...)
	p = append(p, f.Mtype)
	p = append(p, byte(len(f.Method)))
	p = append(p, f.Method...)
	p = append(p, byte(len(f.Status)>>8), byte(len(f.Status)))
	p = append(p, f.Status...)
	p = append(p, byte(len(f.Meta)>>8), byte(len(f.Meta)))
	p = append(p, f.Meta...)
	p = append(p, f.Codec)
	p = append(p, f.Body...)
	total := 4 + 1 + len(f.Pipe) + len(p)
	out := make([]byte, 4, total)
	binary.BigEndian.PutUint32(out, uint32(total))
	out = append(out, byte(len(f.Pipe)))
	out = append(out, f.Pipe...)
	out = append(out, p...)
	return out
}

var errShort = errors.New("short frame")

// ParseFrame decodes one frame from the start of b; it returns the frame and the number of bytes used.
func ParseFrame(b []byte) (Frame, int, error) {
	var f Frame
	if len(b) < 4 {
		return f, 0, errShort
	}
	total := int(binary.BigEndian.Uint32(b))
	if total < 5 || len(b) < total {
		return f, 0, errShort
	}
	p := b[4:total]
	get := func(n int) ([]byte, error) {
		if len(p) < n {
			return nil, errors.New("malformed frame")
		}
		x := p[:n]
		p = p[n:]
		return x, nil
	}
	x, err := get(1)
	if err != nil {
		return f, 0, err
	}
	if x, err = get(int(x[0])); err != nil {
		return f, 0, err
	}
	f.Pipe = append([]byte(nil), x...)
	if len(f.Pipe) > 0 {
		// payload is filtered; leave it opaque
		f.Body = append([]byte(nil), p...)
		return f, total, nil
	}
	if x, err = get(1); err != nil {
		return f, 0, err
	}
	if x, err = get(int(x[0])); err != nil {
		return f, 0, err
	}
	seq, err := strconv.ParseInt(string(x), 36, 32)
	if err != nil {
		return f, 0, err
	}
	f.Seq = int32(seq)
	if x, err = get(1); err != nil {
		return f, 0, err
	}
	f.Mtype = x[0]
	if x, err = get(1); err != nil {
		return f, 0, err
	}
	if x, err = get(int(x[0])); err != nil {
		return f, 0, err
	}
	f.Method = string(x)
	if x, err = get(2); err != nil {
		return f, 0, err
	}
	if x, err = get(int(x[0])<<8 | int(x[1])); err != nil {
		return f, 0, err
	}
	f.Status = string(x)
	if x, err = get(2); err != nil {
		return f, 0, err
	}
	if x, err = get(int(x[0])<<8 | int(x[1])); err != nil {
		return f, 0, err
	}
	f.Meta = string(x)
	if x, err = get(1); err != nil {
		return f, 0, err
	}
	f.Codec = x[0]
	f.Body = append([]byte(nil), p...)
	return f, total, nil
}

// ParseFrames decodes all complete frames of a captured stream.
func ParseFrames(b []byte) (frames []Frame, rest []byte, err error) {
	for len(b) > 0 {
		f, n, e := ParseFrame(b)
		if e == errShort {
			return frames, b, nil
		}
		if e != nil {
			return frames, b, e
		}
		frames = append(frames, f)
		b = b[n:]
	}
	return frames, nil, nil
}

// ReadFrame reads exactly one raw frame from c (model-blocking). ok=false on EOF/error.
func ReadFrame(c *vnet.Conn) (Frame, bool) {
	hdr := make([]byte, 4)
	if !readFull(c, hdr) {
		return Frame{}, false
	}
	total := int(binary.BigEndian.Uint32(hdr))
	if total < 5 || total > 1<<20 {
		return Frame{}, false
	}
	buf := make([]byte, total)
	copy(buf, hdr)
	if !readFull(c, buf[4:]) {
		return Frame{}, false
	}
	f, _, err := ParseFrame(buf)
	return f, err == nil
}

func readFull(c *vnet.Conn, b []byte) bool {
	for len(b) > 0 {
		n, err := c.Read(b)
		b = b[n:]
		if err != nil {
			return len(b) == 0
		}
	}
	return true
}
