// Package world is the shared fixture vocabulary for all session-based checks.
package world

import (
	"fmt"
	"strings"

	erpc "github.com/henrylee2cn/erpc/v6"
	"github.com/henrylee2cn/erpc/v6/codec"
	"github.com/henrylee2cn/erpc/v6/proto/httproto"
	"github.com/henrylee2cn/erpc/v6/proto/jsonproto"
	"github.com/henrylee2cn/erpc/v6/proto/pbproto"
	"github.com/henrylee2cn/erpc/v6/proto/rawproto"
	"github.com/henrylee2cn/erpc/v6/proto/thriftproto"
	"github.com/henrylee2cn/erpc/v6/socket"

	"verif/shim/vnet"
	"verif/shim/vsched"
	"verif/shim/vsync"
)

// FatalError is the panic value raised instead of os.Exit when the framework calls Fatalf.
type FatalError struct{ Msg string }

func (f FatalError) Error() string { return "erpc.Fatalf: " + f.Msg }

type outputter struct{}

func (outputter) Output(calldepth int, msg []byte, level erpc.LoggerLevel) {
	if level == erpc.CRITICAL {
		panic(FatalError{string(msg)})
	}
}
func (outputter) Flush() error { return nil }

var setupDone bool

// Setup prepares process-global state once per process.
func Setup() {
	if setupDone {
		return
	}
	setupDone = true
	erpc.SetLoggerOutputter(outputter{})
	erpc.SetLoggerLevel2(erpc.CRITICAL)
	ResetGlobals()
}

// ResetGlobals puts every mutable process-global of the framework into its documented default.
func ResetGlobals() {
	erpc.SetServiceMethodMapper(erpc.HTTPServiceMethodMapper)
	erpc.SetDefaultProtoFunc(rawproto.NewRawProtoFunc())
	erpc.SetDefaultBodyCodec(codec.ID_JSON)
	socket.SetMessageSizeLimit(0)
}

// Proto returns the named protocol constructor.
func Proto(name string) erpc.ProtoFunc {
	switch name {
	case "", "raw":
		return rawproto.NewRawProtoFunc()
	case "json":
		return jsonproto.NewJSONProtoFunc()
	case "pb":
		return pbproto.NewPbProtoFunc()
	case "thrift":
		return thriftproto.NewBinaryProtoFunc()
	case "http":
		return httproto.NewHTTProtoFunc()
	case "thriftstruct":
		return thriftproto.NewStructProtoFunc()
	}
	panic("unknown proto " + name)
}

// Link is one in-memory connection between two peers.
type Link struct {
	A, B *vnet.Conn // A is the first peer's end, B the second's
}

// NewPeer creates a peer with ages 0 and the given default codec.
func NewPeer(codecName string, plugins ...erpc.Plugin) erpc.Peer {
	if codecName == "" {
		codecName = "json"
	}
	return erpc.NewPeer(erpc.PeerConfig{DefaultBodyCodec: codecName}, plugins...)
}

// Connect joins two peers with a fresh in-memory connection; both sides use ServeConn.
func Connect(a, b erpc.Peer, pf erpc.ProtoFunc) (erpc.Session, erpc.Session, *Link) {
	ca, cb := vnet.Pipe(vnet.NewAddr(), vnet.NewAddr())
	sa, st := a.ServeConn(ca, pf)
	if !st.OK() {
		vsched.Failf("world.Connect: ServeConn(a): %v", st)
	}
	sb, st := b.ServeConn(cb, pf)
	if !st.OK() {
		vsched.Failf("world.Connect: ServeConn(b): %v", st)
	}
	return sa, sb, &Link{A: ca, B: cb}
}

// StatStr renders a status triple.
func StatStr(s *erpc.Status) string {
	if s == nil {
		return "OK"
	}
	return fmt.Sprintf("(%d|%s|%s)", s.Code(), s.Msg(), firstLine(s.Cause().Error()))
}

func firstLine(s string) string {
	if i := strings.IndexByte(s, '\n'); i >= 0 {
		return s[:i]
	}
	return s
}

// Go spawns a harness thread.
func Go(name string, fn func()) *vsched.Thread { return vsched.Spawn(name, fn) }

// WaitDone blocks in the model until the call has completed.
func WaitDone(c erpc.CallCmd) { vsync.AwaitRecv(c.Done()) }

// IsDone polls a call's done channel without blocking.
func IsDone(c erpc.CallCmd) bool {
	select {
	case <-c.Done():
		return true
	default:
		return false
	}
}

// Gate is a scheduler-visible latch.
type Gate struct{ open bool }

//go:norace
func (g *Gate) isOpen() bool { return g.open }

// Wait blocks in the model until the gate is open.
//
//go:norace
func (g *Gate) Wait() { vsched.Block(vsched.KGate, g, g.isOpen) }

// Open opens the gate (a scheduling point).
//
//go:norace
func (g *Gate) Open() { vsched.Point(vsched.KGate, g, nil); g.open = true }

var eventObj = new(int)

// Event appends to the observation log through a scheduling point on a common
// object, so that the relative order of events of different threads is part of
// the explored state (required for oracles that compare event order).
func Event(format string, a ...interface{}) {
	vsched.Point(vsched.KOther, eventObj, nil)
	vsched.Logf(format, a...)
}

// Counter bumps a named per-execution counter that the explorer sums into the evidence.
func Counter(name string) {
	x := vsched.X()
	if x == nil {
		return
	}
	m, _ := x.Data["counters"].(map[string]int64)
	if m == nil {
		m = map[string]int64{}
		x.Data["counters"] = m
	}
	m[name]++
}
