package world

import (
	"bytes"
	"io"
	"strings"

	"github.com/henrylee2cn/erpc/v6/socket"

	"verif/shim/vnet"
)

// Frames for protocols other than raw are produced and parsed with the protocol's own Pack/Unpack (their
// round trip is checked independently under C05); only the raw format has an independent model.

type memRW struct {
	r io.Reader
	w bytes.Buffer
}

func (m *memRW) Read(p []byte) (int, error) {
	if m.r == nil {
		return 0, io.EOF
	}
	return m.r.Read(p)
}
func (m *memRW) Write(p []byte) (int, error) { return m.w.Write(p) }

// EncodeFrame returns the wire bytes of f in the named protocol; ok=false if the protocol cannot carry f.
func EncodeFrame(proto string, f Frame) (b []byte, ok bool) {
	if proto == "" || proto == "raw" {
		return f.Bytes(), true
	}
	defer func() {
		if recover() != nil {
			b, ok = nil, false
		}
	}()
	m := socket.NewMessage()
	m.SetSeq(f.Seq)
	m.SetMtype(f.Mtype)
	m.SetServiceMethod(f.Method)
	if f.Status != "" {
		m.Status(true).DecodeQuery([]byte(f.Status))
	}
	if f.Meta != "" {
		m.Meta().Parse(f.Meta)
	}
	m.SetBodyCodec(f.Codec)
	m.SetBody(f.Body)
	if len(f.Pipe) > 0 {
		if err := m.XferPipe().Append(f.Pipe...); err != nil {
			return nil, false
		}
	}
	rw := &memRW{}
	if err := Proto(proto)(rw).Pack(m); err != nil {
		return nil, false
	}
	return append([]byte{}, rw.w.Bytes()...), true
}

// DecodeFrames parses a captured stream of the named protocol into frames.
func DecodeFrames(proto string, b []byte) (frames []Frame, rest []byte, err error) {
	if proto == "" || proto == "raw" {
		return ParseFrames(b)
	}
	rd := bytes.NewReader(b)
	p := Proto(proto)(&memRW{r: rd})
	for {
		m := socket.NewMessage(socket.WithNewBody(func(socket.Header) interface{} { return new([]byte) }))
		if e := p.Unpack(m); e != nil {
			// protocols with their own read buffer (thrift) may have consumed the whole stream already:
			// the end is a clean EOF from Unpack with nothing left in the reader
			if msg := e.Error(); rd.Len() == 0 && strings.Contains(msg, "EOF") && !strings.Contains(msg, "unexpected") {
				return frames, nil, nil
			}
			return frames, b[len(b)-rd.Len():], e
		}
		f := Frame{Seq: m.Seq(), Mtype: m.Mtype(), Method: m.ServiceMethod(), Codec: m.BodyCodec()}
		if st := m.Status(); st != nil && !st.OK() {
			f.Status = st.QueryString()
		}
		f.Meta = string(m.Meta().QueryString())
		if bp, ok := m.Body().(*[]byte); ok && bp != nil {
			f.Body = append([]byte{}, (*bp)...)
		}
		f.Pipe = append([]byte{}, m.XferPipe().IDs()...)
		frames = append(frames, f)
	}
}

// ReadFrameOf reads one frame of the named protocol from c (model-blocking). ok=false on EOF/error before a whole frame.
func ReadFrameOf(c *vnet.Conn, proto string) (Frame, bool) {
	if proto == "" || proto == "raw" {
		return ReadFrame(c)
	}
	var buf []byte
	one := make([]byte, 1)
	for {
		if fs, _, _ := DecodeFrames(proto, buf); len(fs) > 0 {
			return fs[0], true
		}
		n, err := c.Read(one)
		if n == 1 {
			buf = append(buf, one[0])
		}
		if err != nil || n == 0 {
			fs, _, _ := DecodeFrames(proto, buf)
			if len(fs) > 0 {
				return fs[0], true
			}
			return Frame{}, false
		}
	}
}
