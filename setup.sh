#!/bin/sh
# Builds the framework from files on disk only (offline).
set -e
cd "$(dirname "$0")"
export GOFLAGS=-mod=mod GOPROXY=off GOSUMDB=off GOTOOLCHAIN=local
mkdir -p bin .work evidence replays
go build -o bin/vinstr ./cmd/vinstr
go build -o bin/vcheck ./cmd/vcheck
# warm the build cache (plain and race) with an instrumented worker build
rm -rf .work/setup && mkdir -p .work/setup
./bin/vinstr -repo /repo -out .work/setup/instr -overlay-src overlay >/dev/null
go build -overlay .work/setup/instr/overlay.json -o .work/setup/worker ./worker
go build -race -gcflags=all=-d=checkptr=0 -overlay .work/setup/instr/overlay.json -o .work/setup/worker-race ./worker
rm -rf .work/setup
echo setup ok
