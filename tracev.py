#!/usr/bin/env python3
# usage: tracev.py <scenario> <params> <bound> <substring-of-violation>
import json,subprocess,re,sys
scn,params,bound,sub=sys.argv[1:5]
out=subprocess.run(['/verif/bin/worker','-mode','sched','-name',scn,'-params',params,'-bound',bound,'-budget','100'],capture_output=True,text=True).stdout
r=json.loads([l for l in out.splitlines() if l.startswith('{"kind"')][-1])
for v in r.get('violations') or []:
    if sub in v['detail']:
        print(v['verdict'], v['detail'][:400]); print('obs', v.get('obs'))
        ch=','.join(map(str,v['choices']))
        out=subprocess.run(['/verif/bin/worker','-mode','replay','-name',scn,'-params',params,'-choices',ch],env={'VERIF_TRACE':'1','PATH':'/usr/bin'},capture_output=True,text=True)
        prev=None; run=[]
        for l in out.stderr.splitlines():
            m=re.match(r'step (\d+) choice#\d+ self=t(-?\d+) -> t(\d+)\s+enabled=\[(.*)\]',l)
            if not m: continue
            nxt=m.group(3)
            ops=[o for o in m.group(4).split(' ') if o.startswith('t'+nxt+':')]
            op=re.sub(r'@0x[0-9a-f]+','',ops[0]) if ops else ''
            op=op.split(':',1)[1] if ':' in op else op
            if prev!=nxt:
                if run: print('t'+prev, ' '.join(run))
                run=[]; prev=nxt
            run.append(op)
        if run: print('t'+prev,' '.join(run))
        break
else:
    print('no matching violation; violations:', [v['detail'][:100] for v in r.get('violations') or []])
