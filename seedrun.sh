#!/bin/bash
# usage: seedrun.sh <repo-dir> <scenario> <params> <bound> [extra worker flags]  -- run one scenario against another tree
export GOFLAGS=-mod=mod GOPROXY=off GOSUMDB=off GOTOOLCHAIN=local
cd "$(dirname "$0")"
d=.work/seedrun.$$; rm -rf $d; mkdir -p $d
./bin/vinstr -repo "$1" -keyroot /repo -out $d/instr -overlay-src overlay >/dev/null || exit 2
go build -overlay $d/instr/overlay.json -o $d/worker ./worker || exit 2
timeout 300 $d/worker -mode sched -name "$2" -params "$3" -bound "$4" -budget 120 "${@:5}" 2>/dev/null | ./show.py | cut -c1-500 | head -8
rm -rf $d
