#!/usr/bin/env python3
"""Re-run the registered quick check of every kept seeded change against /repo with the change applied.

usage: seedregress.py [seed-name ...]     (default: all of /verif/seeded/*)

For each seed: git -C /repo apply patch.diff; ./bin/vcheck <property> quick; git -C /repo checkout -- . ;
the result (exit code, first VIOLATION lines) is written back into seeded/<name>/meta.json under "regress".
/repo must be clean; it is left clean.
"""
import json, os, subprocess, sys, time, glob

V = os.path.dirname(os.path.abspath(__file__))
ENV = dict(os.environ, GOFLAGS="-mod=mod", GOPROXY="off", GOSUMDB="off", GOTOOLCHAIN="local")

def sh(cmd, cwd):
    p = subprocess.run(cmd, shell=True, cwd=cwd, env=ENV, capture_output=True, text=True)
    return p.returncode, p.stdout + p.stderr

names = sys.argv[1:] or sorted(os.path.basename(d) for d in glob.glob(os.path.join(V, "seeded", "*")))
rc, o = sh("git status --porcelain", "/repo")
assert o.strip() == "", "/repo is dirty:\n" + o
missed = []
for n in names:
    d = os.path.join(V, "seeded", n)
    meta = json.load(open(os.path.join(d, "meta.json")))
    prop = meta["property"]
    rc, o = sh("git apply " + os.path.join(d, "patch.diff"), "/repo")
    if rc != 0:
        print(n, "PATCH-DOES-NOT-APPLY", o[:300]); missed.append(n); continue
    t0 = time.time()
    try:
        rc, o = sh("./bin/vcheck %s quick" % prop, V)
    finally:
        sh("git checkout -- .", "/repo")
    lines = [l for l in o.splitlines() if l.startswith("VIOLATION") or l.startswith("  ")]
    meta["regress"] = {"check": "./bin/vcheck %s quick" % prop, "exit": rc, "detected": rc == 1, "wall_s": round(time.time() - t0, 1), "first_violations": [l.strip()[:300] for l in lines[:4]]}
    json.dump(meta, open(os.path.join(d, "meta.json"), "w"), indent=1)
    print(n, "DETECTED" if rc == 1 else "MISSED(exit %d)" % rc, meta["regress"]["wall_s"], "s", (lines[1].strip()[:160] if len(lines) > 1 else ""), flush=True)
    if rc != 1:
        missed.append(n)
rc, o = sh("git status --porcelain", "/repo")
assert o.strip() == "", "/repo left dirty:\n" + o
print("missed:", missed)
