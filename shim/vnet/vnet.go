// Package vnet is an in-memory network for model checking: full-duplex
// connections whose Read blocks in the model, a registry of listeners that
// the (instrumented) dialer consults, wire capture per direction and fault
// injection (cut after k bytes, read chunking, write errors).
package vnet

import (
	"crypto/tls"
	"errors"
	"fmt"
	"io"
	"net"
	"time"

	"verif/shim/vsched"
)

// Addr is a fake TCP address.
type Addr struct{ Net, S string }

//go:norace
func (a Addr) Network() string { return a.Net }

//go:norace
func (a Addr) String() string { return a.S }

var (
	errClosed  = errors.New("use of closed network connection")
	errReset   = errors.New("connection reset by peer")
	errPipe    = errors.New("write: broken pipe")
	errRefused = errors.New("connect: connection refused")
)

type world struct {
	nextPort  int
	listeners map[string]*Listener
	conns     []*Conn
	dials     map[string]int
	skew      time.Duration // how far the harness has advanced the network's clock
}

var w *world

//go:norace
func init() { vsched.OnReset(Reset); Reset() }

// Reset drops all listeners and connections (called after every execution).
//
//go:norace
func Reset() {
	w = &world{nextPort: 50001, listeners: map[string]*Listener{}, dials: map[string]int{}}
}

// Conn is one end of an in-memory connection.
type Conn struct {
	name          string
	local, remote Addr
	in            []byte // bytes readable by this end
	inEOF         bool   // the other end closed: EOF after draining
	broken        bool   // the connection was cut/reset: error after draining
	closed        bool   // this end was closed locally
	wdl           time.Time
	peer          *Conn
	// capture
	Written   []byte // everything this end wrote (wire log of the direction this->peer)
	Delivered int    // how many of those bytes reached the other end's queue
	Reads     int
	Writes    int
	// faults
	cutAt    int   // cut the connection once this many bytes were written by this end (-1 = never)
	chunk    int   // max bytes returned by one Read on this end (0 = no limit)
	writeErr error // every Write fails with this error (nothing is delivered)
	OnWrite  func(c *Conn, b []byte)
}

//go:norace
func (c *Conn) String() string { return "conn:" + c.name }

// Pipe creates a connected pair with the given addresses.
//
//go:norace
func Pipe(aLocal, bLocal string) (*Conn, *Conn) {
	a := &Conn{name: aLocal + "->" + bLocal, local: Addr{"tcp", aLocal}, remote: Addr{"tcp", bLocal}, cutAt: -1}
	b := &Conn{name: bLocal + "->" + aLocal, local: Addr{"tcp", bLocal}, remote: Addr{"tcp", aLocal}, cutAt: -1}
	a.peer, b.peer = b, a
	w.conns = append(w.conns, a, b)
	return a, b
}

// NewAddr returns a fresh deterministic local address.
//
//go:norace
func NewAddr() string {
	p := w.nextPort
	w.nextPort++
	return fmt.Sprintf("127.0.0.1:%d", p)
}

// Peer returns the other end.
//
//go:norace
func (c *Conn) Peer() *Conn { return c.peer }

// CutAfter breaks the connection (both directions) as soon as this end has written n bytes in total.
//
//go:norace
func (c *Conn) CutAfter(n int) { c.cutAt = n }

// ChunkReads limits every Read on this end to n bytes.
//
//go:norace
func (c *Conn) ChunkReads(n int) { c.chunk = n }

// FailWrites makes every later Write on this end fail with err.
//
//go:norace
func (c *Conn) FailWrites(err error) { c.writeErr = err }

// Break cuts the connection now (both directions, like a network failure); a scheduling point.
//
//go:norace
func (c *Conn) Break() {
	vsched.Point(vsched.KConnClose, vsched.Multi{c, c.peer}, nil)
	c.broken = true
	c.peer.broken = true
}

// Readable tells whether a Read would return now.
//
//go:norace
func (c *Conn) readable() bool {
	return len(c.in) > 0 || c.inEOF || c.broken || c.closed
}

// Pending returns the number of unread bytes queued for this end.
//
//go:norace
func (c *Conn) Pending() int { return len(c.in) }

// IsClosed reports whether this end was closed locally.
//
//go:norace
func (c *Conn) IsClosed() bool { return c.closed }

// Dead reports whether this end can no longer receive anything.
//
//go:norace
func (c *Conn) Dead() bool { return c.closed || ((c.inEOF || c.broken) && len(c.in) == 0) }

//go:norace
func (c *Conn) Read(b []byte) (int, error) {
	if len(b) == 0 {
		return 0, nil
	}
	vsched.Block(vsched.KConnRead, vsched.Multi{c.peer, c}, c.readable)
	c.Reads++
	if c.closed {
		return 0, &net.OpError{Op: "read", Net: "tcp", Err: errClosed}
	}
	if len(c.in) > 0 {
		n := len(c.in)
		if n > len(b) {
			n = len(b)
		}
		if c.chunk > 0 && n > c.chunk {
			n = c.chunk
		}
		raceRead(c)
		copy(b, c.in[:n])
		c.in = c.in[n:]
		return n, nil
	}
	if c.broken {
		return 0, &net.OpError{Op: "read", Net: "tcp", Err: errReset}
	}
	raceRead(c)
	return 0, io.EOF
}

//go:norace
func (c *Conn) Write(b []byte) (int, error) {
	vsched.Point(vsched.KConnWrite, vsched.Multi{c, c.peer}, nil)
	c.Writes++
	if c.closed {
		return 0, &net.OpError{Op: "write", Net: "tcp", Err: errClosed}
	}
	if c.broken {
		return 0, &net.OpError{Op: "write", Net: "tcp", Err: errReset}
	}
	if c.writeErr != nil {
		return 0, &net.OpError{Op: "write", Net: "tcp", Err: c.writeErr}
	}
	if !c.wdl.IsZero() && Now().After(c.wdl) {
		return 0, &net.OpError{Op: "write", Net: "tcp", Err: timeoutError{}}
	}
	if c.peer.closed {
		return 0, &net.OpError{Op: "write", Net: "tcp", Err: errPipe}
	}
	if c.OnWrite != nil {
		c.OnWrite(c, b)
	}
	n := len(b)
	cut := false
	if c.cutAt >= 0 && len(c.Written)+n >= c.cutAt {
		n = c.cutAt - len(c.Written)
		if n < 0 {
			n = 0
		}
		cut = true
	}
	c.Written = append(c.Written, b[:n]...)
	c.peer.in = append(c.peer.in, b[:n]...)
	c.Delivered += n
	raceWrite(c.peer)
	if cut {
		c.broken = true
		c.peer.broken = true
		if n < len(b) {
			return n, &net.OpError{Op: "write", Net: "tcp", Err: errReset}
		}
	}
	return n, nil
}

// Close closes this end; the other end reads EOF after draining.
//
//go:norace
func (c *Conn) Close() error {
	vsched.Point(vsched.KConnClose, vsched.Multi{c, c.peer}, nil)
	if c.closed {
		return &net.OpError{Op: "close", Net: "tcp", Err: errClosed}
	}
	c.closed = true
	c.peer.inEOF = true
	raceWrite(c.peer)
	return nil
}

//go:norace
func (c *Conn) LocalAddr() net.Addr { return c.local }

//go:norace
func (c *Conn) RemoteAddr() net.Addr { return c.remote }

// Deadlines: only the write deadline is enforced, against a clock the harness can advance
// (AdvanceClock); a write attempted after its connection's write deadline fails with a timeout.
// Read deadlines are recorded and ignored (sessions in the scenarios have no session age).

//go:norace
func (c *Conn) SetDeadline(t time.Time) error { c.wdl = t; return nil }

//go:norace
func (c *Conn) SetReadDeadline(t time.Time) error { return nil }

//go:norace
func (c *Conn) SetWriteDeadline(t time.Time) error { c.wdl = t; return nil }

// WriteDeadline returns the write deadline currently armed on this end (zero: none).
//
//go:norace
func (c *Conn) WriteDeadline() time.Time { return c.wdl }

type timeoutError struct{}

func (timeoutError) Error() string   { return "i/o timeout" }
func (timeoutError) Timeout() bool   { return true }
func (timeoutError) Temporary() bool { return true }

// AdvanceClock moves the network's clock forward (this execution only).
//
//go:norace
func AdvanceClock(d time.Duration) { w.skew += d }

// Now is the network's clock: real time plus what the harness has advanced.
//
//go:norace
func Now() time.Time { return time.Now().Add(w.skew) }

// Listener is an in-memory listener registered under its address.
type Listener struct {
	addr    Addr
	backlog []*Conn
	closed  bool
	Down    bool // refuses new connections while true (server unreachable)
	Accepts int
}

//go:norace
func (l *Listener) String() string { return "listener:" + l.addr.S }

//go:norace
func (l *Listener) acceptable() bool { return len(l.backlog) > 0 || l.closed }

// Listen registers a listener.
//
//go:norace
func Listen(addr string) *Listener {
	l := &Listener{addr: Addr{"tcp", addr}}
	w.listeners[addr] = l
	return l
}

//go:norace
func (l *Listener) Accept() (net.Conn, error) {
	vsched.Block(vsched.KAccept, l, l.acceptable)
	if l.closed {
		return nil, &net.OpError{Op: "accept", Net: "tcp", Err: errClosed}
	}
	c := l.backlog[0]
	l.backlog = l.backlog[1:]
	l.Accepts++
	return c, nil
}

//go:norace
func (l *Listener) Close() error {
	vsched.Point(vsched.KConnClose, l, nil)
	l.closed = true
	if w.listeners[l.addr.S] == l {
		delete(w.listeners, l.addr.S)
	}
	return nil
}

//go:norace
func (l *Listener) Addr() net.Addr { return l.addr }

// Backlog returns the number of connections waiting to be accepted.
//
//go:norace
func (l *Listener) Backlog() int { return len(l.backlog) }

// DialCount returns how many dial attempts were made to addr.
//
//go:norace
func DialCount(addr string) int { return w.dials[addr] }

// Dialer mirrors the fields of net.Dialer used by the code under test.
type Dialer struct {
	LocalAddr net.Addr
	Timeout   time.Duration
}

// DialHook, if set, is consulted on every dial (harness-controlled reachability).
var DialHook func(addr string, attempt int) (refuse bool)

//go:norace
func init() { vsched.OnReset(func() { DialHook = nil }) }

// Dial connects to a registered listener.
//
//go:norace
func (d *Dialer) Dial(network, addr string) (net.Conn, error) {
	l := w.listeners[addr]
	if l != nil {
		vsched.Point(vsched.KConnWrite, vsched.Multi{l, "dial " + addr}, nil)
	} else {
		vsched.Point(vsched.KConnWrite, "dial "+addr, nil)
	}
	w.dials[addr]++
	l = w.listeners[addr]
	refuse := l == nil || l.closed || l.Down
	if DialHook != nil && DialHook(addr, w.dials[addr]) {
		refuse = true
	}
	if refuse {
		return nil, &net.OpError{Op: "dial", Net: network, Err: errRefused}
	}
	local := NewAddr()
	c, s := Pipe(local, addr)
	l.backlog = append(l.backlog, s)
	return c, nil
}

// TLSDialWithDialer is not modelled.
//
//go:norace
func TLSDialWithDialer(d *Dialer, network, addr string, cfg *tls.Config) (net.Conn, error) {
	return nil, errors.New("vnet: TLS is not modelled")
}

// PeerClosed reports whether the other end has been closed locally by its owner.
//
//go:norace
func (c *Conn) PeerClosed() bool { return c.peer.closed }

// Broken reports whether the connection was cut.
//
//go:norace
func (c *Conn) Broken() bool { return c.broken }

// Conns returns every connection end created in this execution (harness use).
//
//go:norace
func Conns() []*Conn { return w.conns }
