//go:build !race

package vnet

func raceRead(c *Conn)  {}
func raceWrite(c *Conn) {}
