//go:build race

package vnet

import (
	"runtime"
	"unsafe"
)

// like internal/poll: all reads are ordered after all earlier writes
var ioSync uint64

func raceRead(c *Conn)  { runtime.RaceAcquire(unsafe.Pointer(&ioSync)) }
func raceWrite(c *Conn) { runtime.RaceReleaseMerge(unsafe.Pointer(&ioSync)) }
