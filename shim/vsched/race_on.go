//go:build race

package vsched

import (
	"runtime"
	"unsafe"
)

func raceAcquire(p unsafe.Pointer)      { runtime.RaceAcquire(p) }
func raceRelease(p unsafe.Pointer)      { runtime.RaceRelease(p) }
func raceReleaseMerge(p unsafe.Pointer) { runtime.RaceReleaseMerge(p) }
