//go:build !race

package vsched

import "unsafe"

func raceAcquire(p unsafe.Pointer)      {}
func raceRelease(p unsafe.Pointer)      {}
func raceReleaseMerge(p unsafe.Pointer) {}
