// Package vsched is the cooperative scheduler under which instrumented code
// runs during model checking. Exactly one managed thread runs at a time; the
// baton is a plain word that parked threads spin on with runtime.Gosched()
// inside //go:norace functions, so the hand-off is invisible to the race
// detector (the shims publish only the happens-before edges the real
// primitives would).
package vsched

import (
	"fmt"
	"runtime"
	"runtime/debug"
	"strings"
	"unsafe"
)

// Kind of a pending operation (used for traces and independence checks).
type Kind uint8

const (
	KStart Kind = iota
	KLock
	KRLock
	KWLockWait
	KAtomic
	KWgAdd
	KWgWait
	KOnce
	KPool
	KChanRecv
	KChanSend
	KChanClose
	KMap
	KConnRead
	KConnWrite
	KConnClose
	KAccept
	KJoin
	KYield
	KQuiesce
	KGate
	KChoose
	KSleep
	KOther
	KAtomicLoad
	KMapRead
	KSpawn
)

var kindNames = [...]string{"start", "lock", "rlock", "wlockwait", "atomic", "wgadd", "wgwait", "once", "pool", "recv", "send", "close", "map", "cread", "cwrite", "cclose", "accept", "join", "yield", "quiesce", "gate", "choose", "sleep", "other", "aload", "mapread", "spawn"}

//go:norace
func (k Kind) String() string { return kindNames[k] }

// Thread is one managed goroutine.
type Thread struct {
	ID      int
	Name    string
	done    bool
	kind    Kind
	obj     interface{}
	en      func() bool
	started bool
	fn      func()
	daemon  bool
	h       uint64 // hash of this thread's causal history (happens-before signature)
	sid     uint64 // stable identity: hash of the spawn event
	nspawn  uint64
	tok     byte // race-detector token: thread exit happens-before a Join of the thread
}

//go:norace
func (t *Thread) isDone() bool { return t.done }

// Done reports whether the thread has finished.
//
//go:norace
func (t *Thread) Done() bool { return t.done }

// ChoicePoint is one recorded scheduling or environment decision.
type ChoicePoint struct {
	N          int  // number of alternatives
	CurEnabled bool // (scheduling) the running thread was among them (index 0)
	Env        bool // environment choice (cost 0)
	Chosen     int
	Tids       []int // thread ids per alternative (scheduling points), nil for env
	Kinds      []Kind
	Sids       []uint64 // stable thread identities per alternative
	Sig        uint64   // happens-before signature of the state in which the choice is made
}

// Verdict values.
const (
	VOK       = ""
	VDeadlock = "deadlock"
	VPanic    = "panic"
	VHorizon  = "livelock"
	VFail     = "fail"
	VDiverge  = "diverge"
)

// Exec is the state of one execution.
type Exec struct {
	threads  []*Thread
	cur      *Thread
	turn     int // id of the thread allowed to run; -1 = controller
	aborting bool
	finished bool

	prefix   []int
	Choices  []ChoicePoint
	Steps    int
	Horizon  int
	MaxEn    int
	Switches int

	Verdict string
	Detail  string
	Obs     []string
	// StepHook, if set, runs (on the scheduler's stack, current thread) at every point.
	StepHook func()
	closed   []uintptr
	keep     []interface{}
	resets   []func()
	Data     map[string]interface{}
	TraceLog []string
	abortOps int
	NoReplay bool   // the verdict depends on process-global allocator/pool state and cannot be re-validated in-process
	KeyTag   string // prepended to the key of any violation of this execution (scenario context that identifies a finding)

	objs objTable
}

type objState struct {
	k           objKey
	used        bool
	last, reads uint64
	ref         interface{} // keeps the object alive for the execution, so its address cannot be reused by another object
}

// objKey identifies a shared object: the two words of the interface value (pointers, uintptrs) or an interned string.
type objKey struct{ a, b uintptr }

// objTable is a small open-addressing hash table. It is not a Go map because the runtime reports
// map accesses to the race detector even from //go:norace functions.
type objTable struct {
	slots []objState
	n     int
	strs  []string
}

//go:norace
func (t *objTable) key(obj interface{}) objKey {
	switch v := obj.(type) {
	case string:
		for i, s := range t.strs {
			if s == v {
				return objKey{1, uintptr(i)}
			}
		}
		t.strs = append(t.strs, v)
		return objKey{1, uintptr(len(t.strs) - 1)}
	case uintptr:
		return objKey{2, v}
	}
	e := (*[2]uintptr)(unsafe.Pointer(&obj))
	return objKey{e[0], e[1]}
}

//go:norace
func (t *objTable) get(obj interface{}) (*objState, bool) {
	if len(t.slots) == 0 {
		t.slots = make([]objState, 512)
	}
	if t.n*2 > len(t.slots) {
		old := t.slots
		t.slots = make([]objState, len(old)*2)
		t.n = 0
		for i := range old {
			if old[i].used {
				s, _ := t.find(old[i].k)
				*s = old[i]
				t.n++
			}
		}
	}
	k := t.key(obj)
	s, found := t.find(k)
	if !found {
		s.k, s.used, s.ref = k, true, obj
		t.n++
	}
	return s, found
}

//go:norace
func (t *objTable) find(k objKey) (*objState, bool) {
	mask := uintptr(len(t.slots) - 1)
	h := (k.a*0x9e3779b97f4a7c15 ^ k.b*0xbf58476d1ce4e5b9)
	h ^= h >> 29
	for i := h & mask; ; i = (i + 1) & mask {
		s := &t.slots[i]
		if !s.used {
			return s, false
		}
		if s.k == k {
			return s, true
		}
	}
}

//go:norace
func mix(a, b uint64) uint64 {
	x := a*0x9e3779b97f4a7c15 ^ (b + 0x7f4a7c15ca11ab1e + (a << 6) + (a >> 2))
	x ^= x >> 31
	x *= 0xbf58476d1ce4e5b9
	x ^= x >> 29
	x *= 0x94d049bb133111eb
	x ^= x >> 32
	return x
}

// Multi is an operation's object list when it touches more than one shared object.
type Multi []interface{}

//go:norace
func isRead(k Kind) bool {
	return k == KRLock || k == KAtomicLoad || k == KMapRead || k == KWgWait
}

// event folds the operation that thread t is about to execute into the
// happens-before signature: every operation depends on the previous
// operation of its thread and on the conflicting operations on its object
// (all earlier writes; for a write also all earlier reads).
//
//go:norace
func (x *Exec) event(t *Thread, kind Kind, obj interface{}) {
	if NoSig {
		return
	}
	h := mix(t.h, uint64(kind)+1)
	switch kind {
	case KJoin:
		if jt, ok := obj.(*Thread); ok {
			h = mix(h, jt.h)
		}
		t.h = h
		return
	case KQuiesce:
		for _, o := range x.threads {
			if o != t {
				h = mix(h, o.h)
			}
		}
		t.h = h
		return
	}
	if obj == nil {
		t.h = h
		return
	}
	if m, ok := obj.(Multi); ok {
		for _, o := range m {
			t.h = h
			x.event1(t, kind, o)
			h = t.h
		}
		return
	}
	t.h = h
	x.event1(t, kind, obj)
}

//go:norace
func (x *Exec) event1(t *Thread, kind Kind, obj interface{}) {
	h := t.h
	o, found := x.objs.get(obj)
	if !found {
		// named by its first-touch event, which is the same in all equivalent interleavings
		o.last = mix(t.h, 0x0b1ec7)
	}
	h = mix(h, o.last)
	if isRead(kind) {
		o.reads += h // commutative accumulation of concurrent reads
	} else {
		h = mix(h, o.reads)
		o.reads = 0
		o.last = h
	}
	t.h = h
}

// stateSig is the signature of the current global state (all thread histories + who is running).
//
//go:norace
func (x *Exec) stateSig(self *Thread) uint64 {
	var s uint64
	for _, t := range x.threads {
		d := uint64(1)
		if t.done {
			d = 2
		}
		s += mix(mix(t.sid, t.h), d)
	}
	if self != nil {
		s = mix(s, self.sid)
	}
	return s
}

var cur *Exec // the active execution (nil outside runs)

var execTok byte

// Trace, when non-nil, receives one line per scheduling decision (debugging aid).
var Trace func(*Exec, string)

// NoSig disables the happens-before signature bookkeeping (used by race-mode workers, which search without state caching:
// the signature tables are Go maps, whose accesses the runtime reports to the race detector regardless of //go:norace).
var NoSig bool

// KindHist, when non-nil, counts scheduling points per kind/object type (debugging aid).
var KindHist map[string]int

// On reports whether a model-checking execution is active.
//
//go:norace
func On() bool { return cur != nil && !cur.aborting }

// Aborting reports whether the current execution is being torn down.
//
//go:norace
func Aborting() bool { return cur != nil && cur.aborting }

// X returns the active execution.
//
//go:norace
func X() *Exec { return cur }

//go:norace
func (x *Exec) park(t *Thread) {
	for x.turn != t.ID {
		runtime.Gosched()
	}
	if x.aborting {
		runtime.Goexit()
	}
}

//go:norace
func (x *Exec) waitController() {
	for x.turn != -1 {
		runtime.Gosched()
	}
}

//go:norace
func (x *Exec) give(id int) { x.turn = id }

// Logf appends to the observation log of the execution.
//
//go:norace
func Logf(format string, a ...interface{}) {
	if cur == nil {
		return
	}
	cur.Obs = append(cur.Obs, fmt.Sprintf(format, a...))
}

// Failf records an oracle violation and aborts the execution.
//
//go:norace
func Failf(format string, a ...interface{}) {
	x := cur
	if x == nil {
		panic(fmt.Sprintf("vsched.Failf outside run: "+format, a...))
	}
	if x.aborting {
		runtime.Goexit()
	}
	x.fail(VFail, fmt.Sprintf(format, a...))
}

//go:norace
func (x *Exec) fail(verdict, detail string) {
	if x.Verdict == "" {
		x.Verdict = verdict
		x.Detail = detail
	}
	x.beginAbort()
	runtime.Goexit()
}

// AbortHook, when set, runs once per execution at the moment it stops being a faithful execution
// (normal end, violation, deadlock, horizon): before any teardown code of the threads runs.
var AbortHook func(x *Exec)

//go:norace
func (x *Exec) beginAbort() {
	if !x.aborting {
		x.aborting = true
		if AbortHook != nil {
			AbortHook(x)
		}
	}
}

// NoReplay marks the current execution's verdict as not re-validatable by in-process replay.
//
//go:norace
func NoReplay() {
	if cur != nil {
		cur.NoReplay = true
	}
}

// Tag sets the context tag that becomes part of the identity of any violation found in this execution.
//
//go:norace
func Tag(s string) {
	if cur != nil {
		cur.KeyTag = s
	}
}

// Closed bookkeeping for channels (keyed by channel pointer).
//
//go:norace
func (x *Exec) MarkClosed(p uintptr, keepAlive interface{}) {
	if !x.IsClosed(p) {
		x.closed = append(x.closed, p)
		// the closed channel must stay reachable for the rest of the execution: otherwise its address
		// could be reused by a new channel, which would then be taken for closed
		x.keep = append(x.keep, keepAlive)
	}
}

//go:norace
func (x *Exec) IsClosed(p uintptr) bool {
	for _, c := range x.closed {
		if c == p {
			return true
		}
	}
	return false
}

// Spawn creates a new managed thread running fn. It is not a scheduling point.
//
//go:norace
func Spawn(name string, fn func()) *Thread {
	x := cur
	if x == nil {
		panic("vsched.Spawn outside run")
	}
	if x.aborting {
		return &Thread{done: true}
	}
	t := &Thread{ID: len(x.threads), Name: name, kind: KStart, fn: fn}
	if p := x.cur; p != nil {
		p.nspawn++
		p.h = mix(p.h, uint64(KSpawn)+1)
		t.sid = mix(p.h, p.nspawn)
	} else {
		t.sid = mix(uint64(len(x.threads)), 0x5bd1)
	}
	t.h = t.sid
	x.threads = append(x.threads, t)
	go x.threadMain(t)
	return t
}

// SpawnDaemon is Spawn for a thread that never keeps the system "busy":
// it is ignored by Quiesce and by deadlock detection of others.
//
//go:norace
func SpawnDaemon(name string, fn func()) *Thread {
	t := Spawn(name, fn)
	t.daemon = true
	return t
}

//go:norace
func (x *Exec) threadMain(t *Thread) {
	defer x.threadExit(t)
	x.park(t)
	t.started = true
	t.fn()
}

// threadExit is the deferred epilogue of every managed thread.
//
//go:norace
func (x *Exec) threadExit(t *Thread) {
	if p := recover(); p != nil {
		if !x.aborting {
			if x.Verdict == "" {
				x.Verdict = VPanic
				x.Detail = fmt.Sprintf("escaped panic in thread %d(%s): %v\n%s", t.ID, t.Name, p, trimStack(string(debug.Stack())))
			}
			x.beginAbort()
		}
	}
	raceRelease(unsafe.Pointer(&t.tok))
	raceReleaseMerge(unsafe.Pointer(&execTok))
	t.done = true
	if x.aborting {
		x.give(-1)
		return
	}
	// normal exit: pick a successor (free switch)
	x.cur = nil
	if t.ID == 0 {
		// main thread finished: the execution is over
		x.finished = true
		x.beginAbort()
		x.give(-1)
		return
	}
	x.schedule(nil)
}

func trimStack(s string) string {
	lines := strings.Split(s, "\n")
	if len(lines) > 60 {
		lines = lines[:60]
	}
	return strings.Join(lines, "\n")
}

// enabledList returns enabled threads in canonical order: running thread first (if enabled), then ascending ids.
//
//go:norace
func (x *Exec) enabledList(self *Thread) []*Thread {
	var out []*Thread
	if self != nil && !self.done && (self.en == nil || self.en()) && self.kind != KQuiesce {
		out = append(out, self)
	}
	var quiescer *Thread
	for _, t := range x.threads {
		if t == self || t.done {
			continue
		}
		if t.kind == KQuiesce {
			quiescer = t
			continue
		}
		if t.en == nil || t.en() {
			out = append(out, t)
		}
	}
	if self != nil && self.kind == KQuiesce {
		quiescer = self
	}
	if quiescer != nil {
		// a quiescing thread is enabled only if no non-daemon thread is
		busy := false
		for _, t := range out {
			if !t.daemon {
				busy = true
				break
			}
		}
		if !busy {
			if quiescer == self {
				out = append([]*Thread{self}, out...)
			} else {
				out = append(out, quiescer)
			}
		}
	}
	return out
}

// schedule picks the next thread. self is the calling thread (nil when it has exited).
// It returns when self is allowed to proceed.
//
//go:norace
func (x *Exec) schedule(self *Thread) {
	x.Steps++
	if x.StepHook != nil {
		x.StepHook()
	}
	if x.Steps > x.Horizon {
		// A closed scenario that is still taking steps after the horizon (an order of magnitude above the longest
		// terminating execution) is spinning: a livelock. The unfinished threads are case context.
		detail := fmt.Sprintf("the execution did not terminate (livelock): still taking scheduling steps after the horizon of %d | %s", x.Horizon, x.describeUnfinished())
		if self == nil {
			if x.Verdict == "" {
				x.Verdict = VHorizon
				x.Detail = detail
			}
			x.beginAbort()
			x.give(-1)
			return
		}
		x.fail(VHorizon, detail)
	}
	en := x.enabledList(self)
	if len(en) > x.MaxEn {
		x.MaxEn = len(en)
	}
	if len(en) == 0 {
		detail := x.describeBlocked()
		if self == nil {
			if x.Verdict == "" {
				x.Verdict = VDeadlock
				x.Detail = detail
			}
			x.beginAbort()
			x.give(-1)
			return
		}
		x.fail(VDeadlock, detail)
	}
	idx := 0
	if len(en) > 1 {
		curEn := self != nil && en[0] == self
		k := len(x.Choices)
		if k < len(x.prefix) {
			idx = x.prefix[k]
			if idx < 0 || idx >= len(en) {
				msg := fmt.Sprintf("replay divergence: choice %d wants alternative %d of %d", k, idx, len(en))
				if self == nil {
					x.Verdict, x.Detail = VDiverge, msg
					x.beginAbort()
					x.give(-1)
					return
				}
				x.fail(VDiverge, msg)
			}
		}
		cp := ChoicePoint{N: len(en), CurEnabled: curEn, Chosen: idx}
		cp.Tids = make([]int, len(en))
		cp.Kinds = make([]Kind, len(en))
		cp.Sids = make([]uint64, len(en))
		for i, t := range en {
			cp.Tids[i] = t.ID
			cp.Kinds[i] = t.kind
			cp.Sids[i] = t.sid
		}
		cp.Sig = x.stateSig(self)
		x.Choices = append(x.Choices, cp)
	}
	next := en[idx]
	if Trace != nil {
		sid := -1
		if self != nil {
			sid = self.ID
		}
		var ids []string
		for _, t := range en {
			ids = append(ids, fmt.Sprintf("t%d:%s:%s", t.ID, t.kind, objString(t.obj)))
		}
		Trace(x, fmt.Sprintf("step %d choice#%d self=t%d -> t%d  enabled=%v", x.Steps, len(x.Choices), sid, next.ID, ids))
	}
	if next == self {
		return
	}
	x.Switches++
	x.cur = next
	x.give(next.ID)
	if self != nil {
		x.park(self)
	}
}

//go:norace
func (x *Exec) describeUnfinished() string {
	var b strings.Builder
	b.WriteString("unfinished: ")
	for _, t := range x.threads {
		if t.done {
			continue
		}
		fmt.Fprintf(&b, "[t%d %s at %s %s] ", t.ID, t.Name, t.kind, objString(t.obj))
	}
	return b.String()
}

//go:norace
func (x *Exec) describeBlocked() string {
	var b strings.Builder
	b.WriteString("no enabled thread; blocked: ")
	for _, t := range x.threads {
		if t.done {
			continue
		}
		fmt.Fprintf(&b, "[t%d %s waits %s %s] ", t.ID, t.Name, t.kind, objString(t.obj))
	}
	return b.String()
}

//go:norace
func objString(o interface{}) string {
	switch v := o.(type) {
	case nil:
		return ""
	case string:
		return v
	case *Thread:
		return v.Name
	case uintptr:
		return "chan"
	case Multi:
		if len(v) > 0 {
			return objString(v[0])
		}
		return ""
	case fmt.Stringer:
		return v.String()
	}
	return fmt.Sprintf("%T@%p", o, o)
}

// Point is a scheduling point placed before a visible operation of the running thread.
// en (may be nil) tells whether the operation could proceed now.
//
//go:norace
func Point(kind Kind, obj interface{}, en func() bool) {
	x := cur
	if x == nil {
		return
	}
	if x.aborting {
		x.abortSpin()
		return
	}
	t := x.cur
	t.kind, t.obj, t.en = kind, obj, en
	if KindHist != nil {
		KindHist[kind.String()+" "+objString(obj)]++
	}
	x.schedule(t)
	t.en = nil
	x.event(t, kind, obj)
}

// Block is Point for operations that must not proceed during teardown
// (the caller would otherwise fall into a real blocking operation).
//
//go:norace
func Block(kind Kind, obj interface{}, en func() bool) {
	x := cur
	if x == nil {
		if en != nil && !en() {
			panic(fmt.Sprintf("vsched: operation %s would block outside a model-checking run", kind))
		}
		return
	}
	if x.aborting {
		if en != nil && !en() {
			runtime.Goexit()
		}
		x.abortSpin()
		return
	}
	Point(kind, obj, en)
}

// abortSpin bounds the work a thread may do while it is being torn down: shim operations are
// no-ops then, so a retry loop that relies on them to make progress would never end.
//
//go:norace
func (x *Exec) abortSpin() {
	x.abortOps++
	if x.abortOps > 3000 {
		x.abortOps = 0
		runtime.Goexit()
	}
}

// Yield is an explicit scheduling point.
//
//go:norace
func Yield() { Point(KYield, nil, nil) }

// Choose is an environment choice among n alternatives (cost 0).
//
//go:norace
func Choose(n int, what string) int {
	x := cur
	if x == nil || n <= 1 {
		return 0
	}
	if x.aborting {
		return 0
	}
	idx := 0
	k := len(x.Choices)
	if k < len(x.prefix) {
		idx = x.prefix[k]
		if idx < 0 || idx >= n {
			x.fail(VDiverge, fmt.Sprintf("replay divergence: env choice %d (%s) wants %d of %d", k, what, idx, n))
		}
	}
	x.Choices = append(x.Choices, ChoicePoint{N: n, Env: true, Chosen: idx, Sig: x.stateSig(x.cur)})
	x.cur.h = mix(mix(x.cur.h, uint64(KChoose)+1), uint64(idx)*1000003+uint64(n))
	return idx
}

// Join blocks (in the model) until t has finished.
//
//go:norace
func Join(t *Thread) {
	Block(KJoin, t, t.isDone)
	raceAcquire(unsafe.Pointer(&t.tok))
}

// Quiesce blocks the caller until no other non-daemon thread is enabled.
//
//go:norace
func Quiesce() {
	x := cur
	if x == nil || x.aborting {
		return
	}
	Point(KQuiesce, nil, nil)
}

// Live returns the number of unfinished threads other than the caller.
//
//go:norace
func Live() int {
	x := cur
	n := 0
	for _, t := range x.threads {
		if !t.done && t != x.cur {
			n++
		}
	}
	return n
}

// BlockedDesc describes unfinished threads (for oracles reporting hangs).
//
//go:norace
func BlockedDesc() string { return cur.describeBlocked() }

// OnReset registers fn to run after every execution (process-global state reset).
var resetHooks []func()

//go:norace
func OnReset(fn func()) { resetHooks = append(resetHooks, fn) }

// Run executes body as thread 0 under the given choice prefix.
//
//go:norace
func Run(prefix []int, horizon int, body func()) *Exec {
	if cur != nil {
		panic("vsched.Run: nested run")
	}
	x := &Exec{prefix: prefix, Horizon: horizon, turn: -1, Data: map[string]interface{}{}}
	cur = x
	t0 := &Thread{ID: 0, Name: "main", kind: KStart, fn: body, sid: 0x1001, h: 0x1001}
	x.threads = append(x.threads, t0)
	go x.threadMain(t0)
	x.cur = t0
	x.give(0)
	x.waitController()
	// teardown: resume every unfinished thread, one at a time, in abort mode
	x.beginAbort()
	for i := 0; i < len(x.threads); i++ { // threads may not grow during abort
		t := x.threads[i]
		if t.done {
			continue
		}
		x.abortOps = 0
		x.give(t.ID)
		x.waitController()
	}
	raceAcquire(unsafe.Pointer(&execTok)) // everything the threads of this execution did happens-before the next execution
	cur = nil
	for _, fn := range resetHooks {
		fn()
	}
	return x
}
