package vsched

import (
	"crypto/sha1"
	"encoding/hex"
	"fmt"
	"strings"
	"time"
)

// Violation is a failed execution, with the choice list that reproduces it.
type Violation struct {
	Scenario string   `json:"scenario"`
	Params   string   `json:"params,omitempty"`
	Verdict  string   `json:"verdict"`
	Detail   string   `json:"detail"`
	Choices  []int    `json:"choices"`
	Obs      []string `json:"obs,omitempty"`
	Replayed int      `json:"replayed_identically"`
	Key      string   `json:"key"` // normalized descriptor used for known-finding matching
}

// Stats of one exploration.
type Stats struct {
	Executions   int64            `json:"executions"`
	Steps        int64            `json:"steps"`
	ChoicePoints int64            `json:"choice_points"`
	MaxEnabled   int              `json:"max_enabled"`
	MaxChoices   int              `json:"max_choices_in_one_execution"`
	Switching    int64            `json:"executions_with_context_switch"`
	Distinct     map[string]int   `json:"-"`
	DistinctObs  int              `json:"distinct_observation_logs"`
	HorizonHits  int64            `json:"horizon_hits"`
	Bound        int              `json:"preemption_bound"`
	Complete     bool             `json:"complete"`
	Sample       []string         `json:"sample_obs,omitempty"`
	SampleSched  []int            `json:"sample_schedule,omitempty"`
	Counters     map[string]int64 `json:"counters,omitempty"`
	Pruned       int64            `json:"pruned"`
	States       int64            `json:"states"`
}

// Explorer performs a stateless depth-first search over choice sequences with
// a preemption bound.
type Explorer struct {
	Name     string
	Params   string
	Body     func()
	Bound    int // max preemptions; <0 = unbounded
	Horizon  int
	Shard    int
	NShards  int
	Deadline time.Time
	MaxViol  int
	KeyFn    func(x *Exec) string // violation key (defaults to verdict+first line of detail)
	// AfterExec runs after each execution (outside the scheduler).
	AfterExec func(x *Exec)
	// PostRun runs after every Run (including replays) and may turn the execution into a violation (race mode).
	PostRun func(x *Exec)

	Stats      Stats
	Violations []Violation
	seenViol   map[string]bool
	taskCtr    int
	timedOut   bool
	visited    map[uint64]int16
	NoCache    bool // disable happens-before state caching (plain stateless search)
	EnvOnly    bool // branch on environment choices only (deterministic default schedule): pure input/configuration enumeration
}

// DebugDiverge, when set, is called with parent and child executions on a replay divergence.
var DebugDiverge func(parent, child *Exec, prefix []int)

//go:norace
func obsHash(obs []string) string {
	h := sha1.New()
	for _, o := range obs {
		h.Write([]byte(o))
		h.Write([]byte{0})
	}
	return hex.EncodeToString(h.Sum(nil)[:8])
}

//go:norace
func (e *Explorer) runOnce(prefix []int) *Exec {
	x := Run(prefix, e.Horizon, e.Body)
	if e.PostRun != nil {
		e.PostRun(x)
	}
	if e.AfterExec != nil {
		e.AfterExec(x)
	}
	return x
}

//go:norace
func (e *Explorer) account(x *Exec, count bool) {
	if count {
		e.Stats.Executions++
		e.Stats.Steps += int64(x.Steps)
		e.Stats.ChoicePoints += int64(len(x.Choices))
		if x.MaxEn > e.Stats.MaxEnabled {
			e.Stats.MaxEnabled = x.MaxEn
		}
		if len(x.Choices) > e.Stats.MaxChoices {
			e.Stats.MaxChoices = len(x.Choices)
		}
		if x.Switches > 0 {
			e.Stats.Switching++
		}
		h := obsHash(x.Obs)
		if e.Stats.Distinct == nil {
			e.Stats.Distinct = map[string]int{}
		}
		if _, ok := e.Stats.Distinct[h]; !ok && len(e.Stats.Distinct) < 200000 {
			e.Stats.Distinct[h] = 0
		}
		e.Stats.Distinct[h]++
		if e.Stats.Sample == nil || (len(x.Obs) > len(e.Stats.Sample) && e.Stats.Executions < 2000) {
			e.Stats.Sample = append([]string(nil), x.Obs...)
			e.Stats.SampleSched = chosen(x)
		}
		if v, ok := x.Data["counters"].(map[string]int64); ok {
			if e.Stats.Counters == nil {
				e.Stats.Counters = map[string]int64{}
			}
			for k, n := range v {
				e.Stats.Counters[k] += n
			}
		}
	}
	if x.Verdict == VHorizon && count {
		e.Stats.HorizonHits++
	}
	if x.Verdict != VOK {
		e.report(x)
	}
}

//go:norace
func chosen(x *Exec) []int {
	out := make([]int, len(x.Choices))
	for i, c := range x.Choices {
		out[i] = c.Chosen
	}
	return out
}

//go:norace
func firstLine(s string) string {
	if i := strings.IndexByte(s, '\n'); i >= 0 {
		return s[:i]
	}
	return s
}

//go:norace
func (e *Explorer) report(x *Exec) {
	key := x.Verdict + ": " + firstLine(x.Detail)
	if i := strings.Index(key, " | "); i >= 0 {
		key = key[:i] // text after " | " is case-specific context, not part of the finding's identity
	}
	if x.KeyTag != "" {
		key = "[" + x.KeyTag + "] " + key
	}
	if e.KeyFn != nil {
		key = e.KeyFn(x)
	}
	if e.seenViol == nil {
		e.seenViol = map[string]bool{}
	}
	if e.seenViol[key] {
		return
	}
	e.seenViol[key] = true
	ch := chosen(x)
	// replay 5x: must reproduce the same verdict and observation log
	same := 0
	if x.Verdict == "race" || x.NoReplay {
		same = 5 // not replayable in-process: the detector deduplicates reports; the schedule is kept for a fresh process
	}
	for i := 0; i < 5 && x.Verdict != "race" && !x.NoReplay; i++ {
		y := Run(ch, e.Horizon, e.Body)
		if e.PostRun != nil {
			e.PostRun(y)
		}
		if y.Verdict == x.Verdict && obsHash(y.Obs) == obsHash(x.Obs) && firstLine(y.Detail) == firstLine(x.Detail) {
			same++
		}
	}
	v := Violation{Scenario: e.Name, Params: e.Params, Verdict: x.Verdict, Detail: x.Detail, Choices: ch, Obs: x.Obs, Replayed: same, Key: key}
	if same < 5 {
		v.Verdict = "harness-nondeterminism(" + x.Verdict + ")"
	}
	e.Violations = append(e.Violations, v)
}

// StopRequested, when set to a non-zero value (by the worker's memory watchdog), ends the search like an expired
// deadline: what was explored so far is reported and the run is marked incomplete.
var StopRequested int32

// Explore runs the search. It returns true if the search completed within the deadline.
//
//go:norace
func (e *Explorer) Explore() bool {
	if e.Horizon == 0 {
		e.Horizon = 20000
	}
	if e.NShards == 0 {
		e.NShards = 1
	}
	if e.MaxViol == 0 {
		e.MaxViol = 5
	}
	e.Stats.Bound = e.Bound
	// determinism check: first execution twice
	a := e.runOnce(nil)
	b := e.runOnce(nil)
	if a.Verdict == "race" || b.Verdict == "race" {
		// the race detector reports each racing pair once per process: a race verdict does not repeat
		if a.Verdict == "race" {
			e.report(a)
		}
		a.Verdict, b.Verdict = "", ""
	}
	if obsHash(a.Obs) != obsHash(b.Obs) || a.Verdict != b.Verdict || len(a.Choices) != len(b.Choices) {
		e.Violations = append(e.Violations, Violation{Scenario: e.Name, Params: e.Params, Verdict: "harness-nondeterminism", Key: "harness-nondeterminism",
			Detail: fmt.Sprintf("first execution is not reproducible:\nA(%s,%d choices): %v\nB(%s,%d choices): %v\nA detail: %s\nB detail: %s", a.Verdict, len(a.Choices), a.Obs, b.Verdict, len(b.Choices), b.Obs, a.Detail, b.Detail)})
		return true
	}
	e.exploreNode(a, 0, 0)
	e.Stats.DistinctObs = len(e.Stats.Distinct)
	e.Stats.States = int64(len(e.visited))
	e.Stats.Complete = !e.timedOut
	return !e.timedOut
}

// exploreNode processes an already executed node x whose prefix had length plen,
// at tree depth d (0 = root).
//
// State caching: every choice point carries the happens-before signature of
// the state in which it is taken. visited[(sig, alternative)] remembers the
// largest remaining preemption budget with which that alternative has been
// (or is being) explored from that state; a later arrival with no more budget
// is pruned, since equal signatures mean equal states (same per-thread causal
// histories) and therefore equal futures.
//
//go:norace
func (e *Explorer) exploreNode(x *Exec, plen int, depth int) {
	mine := depth >= 2 || e.Shard == 0 // top two levels are re-executed by every shard; only shard 0 counts them
	e.account(x, mine)
	if len(e.Violations) >= e.MaxViol {
		return
	}
	if x.Verdict == VDiverge {
		return
	}
	if e.visited == nil {
		e.visited = map[uint64]int16{}
	}
	budget := func(used int) int16 {
		if e.Bound < 0 {
			return 1 << 14
		}
		return int16(e.Bound - used)
	}
	altKey := func(c *ChoicePoint, alt int) uint64 {
		if c.Env {
			return mix(c.Sig, uint64(alt)+0xe17)
		}
		return mix(c.Sig, c.Sids[alt])
	}
	// preemptions used before each point
	cost := 0
	costs := make([]int, len(x.Choices)+1)
	for i, c := range x.Choices {
		costs[i] = cost
		if !c.Env && c.CurEnabled && c.Chosen != 0 {
			cost++
		}
	}
	base := chosen(x)
	for i := plen; i < len(x.Choices); i++ {
		c := &x.Choices[i]
		for alt := 0; alt < c.N; alt++ {
			if alt == c.Chosen {
				continue
			}
			if e.EnvOnly && !c.Env {
				continue
			}
			nc := costs[i]
			if !c.Env && c.CurEnabled && alt != 0 {
				nc++
			}
			if e.Bound >= 0 && nc > e.Bound {
				continue
			}
			if depth == 1 {
				// children of depth-1 nodes are the shard tasks (numbered before any pruning so that all shards agree)
				e.taskCtr++
				if e.taskCtr%e.NShards != e.Shard {
					continue
				}
			}
			if !e.NoCache {
				k := altKey(c, alt)
				rem := budget(nc)
				if v, ok := e.visited[k]; ok && v >= rem {
					e.Stats.Pruned++
					continue
				}
				e.visited[k] = rem
			}
			if (!e.Deadline.IsZero() && time.Now().After(e.Deadline)) || StopRequested != 0 {
				e.timedOut = true
				return
			}
			p := make([]int, i+1)
			copy(p, base[:i])
			p[i] = alt
			y := e.runOnce(p)
			if y.Verdict == VDiverge && DebugDiverge != nil {
				DebugDiverge(x, y, p)
			}
			e.exploreNode(y, i+1, depth+1)
			if e.timedOut || len(e.Violations) >= e.MaxViol {
				return
			}
		}
		// the default continuation from this state
		if !e.NoCache {
			k := altKey(c, c.Chosen)
			rem := budget(costs[i+1])
			if v, ok := e.visited[k]; ok && v >= rem {
				if depth >= 2 {
					// everything beyond this point has been explored from an identical state
					e.Stats.Pruned++
					return
				}
			} else {
				e.visited[k] = rem
			}
		}
	}
}
