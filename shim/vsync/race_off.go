//go:build !race

package vsync

import "unsafe"

// RaceEnabled reports whether the build has the race detector.
const RaceEnabled = false

func raceAcquire(p unsafe.Pointer)      {}
func raceRelease(p unsafe.Pointer)      {}
func raceReleaseMerge(p unsafe.Pointer) {}
