// Package vsync replaces package sync in instrumented builds: the same
// exported names, but every blocking operation blocks *in the model* of
// verif/shim/vsched, and every acquire is a scheduling point.
package vsync

import (
	"fmt"
	"reflect"
	"unsafe"

	"verif/shim/vsched"
)

// Locker mirrors sync.Locker.
type Locker interface {
	Lock()
	Unlock()
}

// Mutex mirrors sync.Mutex.
type Mutex struct {
	held bool
	tag  byte // address anchor for race annotations
}

//go:norace
func (m *Mutex) free() bool { return !m.held }

// Lock acquires the mutex (scheduling point; model-blocking).
//
//go:norace
func (m *Mutex) Lock() {
	vsched.Block(vsched.KLock, m, m.free)
	if m.held && vsched.On() {
		panic("vsync: mutex acquired while held (scheduler bug)")
	}
	m.held = true
	raceAcquire(unsafe.Pointer(&m.tag))
}

// TryLock mirrors sync.Mutex.TryLock.
//
//go:norace
func (m *Mutex) TryLock() bool {
	vsched.Point(vsched.KLock, m, nil)
	if m.held {
		return false
	}
	m.held = true
	raceAcquire(unsafe.Pointer(&m.tag))
	return true
}

// Unlock releases the mutex (not a scheduling point: releases are left-movers).
//
//go:norace
func (m *Mutex) Unlock() {
	if !m.held {
		if vsched.Aborting() {
			return
		}
		fatal("sync: unlock of unlocked mutex")
	}
	raceRelease(unsafe.Pointer(&m.tag))
	m.held = false
}

//go:norace
func (m *Mutex) String() string { return "Mutex" }

//go:norace
func fatal(msg string) {
	if vsched.On() {
		vsched.Failf("fatal error: %s", msg)
	}
	panic(msg)
}

// RWMutex mirrors sync.RWMutex including writer preference.
type RWMutex struct {
	readers  int
	wpending bool
	wactive  bool
	tag      byte
	rtag     byte
}

//go:norace
func (rw *RWMutex) String() string { return "RWMutex" }

//go:norace
func (rw *RWMutex) noWriter() bool { return !rw.wpending && !rw.wactive }

//go:norace
func (rw *RWMutex) noReaders() bool { return rw.readers == 0 }

// RLock acquires a read lock.
//
//go:norace
func (rw *RWMutex) RLock() {
	vsched.Block(vsched.KRLock, rw, rw.noWriter)
	rw.readers++
	raceAcquire(unsafe.Pointer(&rw.tag))
}

// RUnlock releases a read lock.
//
//go:norace
func (rw *RWMutex) RUnlock() {
	if rw.readers <= 0 {
		if vsched.Aborting() {
			return
		}
		fatal("sync: RUnlock of unlocked RWMutex")
	}
	raceReleaseMerge(unsafe.Pointer(&rw.rtag))
	rw.readers--
}

// Lock acquires the write lock.
//
//go:norace
func (rw *RWMutex) Lock() {
	vsched.Block(vsched.KLock, rw, rw.noWriter)
	rw.wpending = true
	if rw.readers > 0 {
		vsched.Block(vsched.KWLockWait, rw, rw.noReaders)
	}
	rw.wpending = false
	rw.wactive = true
	raceAcquire(unsafe.Pointer(&rw.tag))
	raceAcquire(unsafe.Pointer(&rw.rtag))
}

// Unlock releases the write lock.
//
//go:norace
func (rw *RWMutex) Unlock() {
	if !rw.wactive {
		if vsched.Aborting() {
			return
		}
		fatal("sync: Unlock of unlocked RWMutex")
	}
	raceRelease(unsafe.Pointer(&rw.tag))
	rw.wactive = false
}

// RLocker mirrors sync.RWMutex.RLocker.
//
//go:norace
func (rw *RWMutex) RLocker() Locker { return (*rlocker)(rw) }

type rlocker RWMutex

//go:norace
func (r *rlocker) Lock() { (*RWMutex)(r).RLock() }

//go:norace
func (r *rlocker) Unlock() { (*RWMutex)(r).RUnlock() }

// WaitGroup mirrors sync.WaitGroup.
type WaitGroup struct {
	n       int
	waiters int
	tag     byte
}

//go:norace
func (wg *WaitGroup) String() string { return "WaitGroup" }

//go:norace
func (wg *WaitGroup) zero() bool { return wg.n == 0 }

// Add adds delta. Positive deltas are scheduling points; Done is a left-mover.
//
//go:norace
func (wg *WaitGroup) Add(delta int) {
	if delta > 0 {
		vsched.Point(vsched.KWgAdd, wg, nil)
	}
	if delta < 0 {
		raceReleaseMerge(unsafe.Pointer(&wg.tag))
	}
	wg.n += delta
	if wg.n < 0 {
		if vsched.Aborting() {
			wg.n = 0
			return
		}
		panic("sync: negative WaitGroup counter")
	}
}

// Done decrements the counter.
//
//go:norace
func (wg *WaitGroup) Done() { wg.Add(-1) }

// Wait blocks until the counter is zero.
//
//go:norace
func (wg *WaitGroup) Wait() {
	vsched.Block(vsched.KWgWait, wg, wg.zero)
	raceAcquire(unsafe.Pointer(&wg.tag))
}

// Once mirrors sync.Once.
type Once struct {
	state int // 0 idle, 1 running, 2 done
	tag   byte
}

//go:norace
func (o *Once) notRunning() bool { return o.state != 1 }

//go:norace
func (o *Once) finish() {
	raceRelease(unsafe.Pointer(&o.tag))
	o.state = 2
}

// Do mirrors sync.Once.Do.
//
//go:norace
func (o *Once) Do(f func()) {
	vsched.Block(vsched.KOnce, o, o.notRunning)
	if o.state == 2 {
		raceAcquire(unsafe.Pointer(&o.tag))
		return
	}
	o.state = 1
	defer o.finish()
	f()
}

// Pool mirrors sync.Pool with a deterministic LIFO free list. That is a legal
// sync.Pool behaviour and the adversarial one for reuse bugs: an object put
// back is the next one handed out.
type Pool struct {
	New   func() interface{}
	items []interface{}
	epoch *vsched.Exec
}

// fresh drops items that belong to an earlier execution (lazy per-execution reset).
//
//go:norace
func (p *Pool) fresh() {
	if x := vsched.X(); p.epoch != x {
		p.epoch = x
		for i := range p.items {
			p.items[i] = nil
		}
		p.items = p.items[:0]
	}
}

// Get mirrors sync.Pool.Get.
//
//go:norace
func (p *Pool) Get() interface{} {
	vsched.Point(vsched.KPool, p, nil)
	p.fresh()
	if n := len(p.items); n > 0 {
		it := p.items[n-1]
		p.items[n-1] = nil
		p.items = p.items[:n-1]
		raceAcquire(poolRaceAddr(it))
		return it
	}
	if p.New != nil {
		return p.New()
	}
	return nil
}

// Put mirrors sync.Pool.Put.
//
//go:norace
func (p *Pool) Put(x interface{}) {
	if x == nil {
		return
	}
	if vsched.Aborting() {
		// during teardown nothing is retained, so that executions never see objects of an aborted one
		return
	}
	vsched.Point(vsched.KPool, p, nil)
	p.fresh()
	raceReleaseMerge(poolRaceAddr(x))
	p.items = append(p.items, x)
	// a second scheduling point right after the object became available: a caller that (wrongly) keeps using
	// what it just released can be overtaken by the next user of the object
	vsched.Point(vsched.KPool, p, nil)
}

var poolRaceHash [128]uint64

//go:norace
func poolRaceAddr(x interface{}) unsafe.Pointer {
	ptr := uintptr((*[2]unsafe.Pointer)(unsafe.Pointer(&x))[1])
	h := uint32((uint64(uint32(ptr)) * 0x85ebca6b) >> 16)
	return unsafe.Pointer(&poolRaceHash[h%uint32(len(poolRaceHash))])
}

// Len reports the number of pooled items (harness use).
//
//go:norace
func (p *Pool) Len() int { return len(p.items) }

// Go runs fn as a new managed thread (replacement of the go statement).
//
//go:norace
func Go(fn func()) {
	if vsched.Aborting() {
		return
	}
	if !vsched.On() {
		go fn()
		return
	}
	vsched.Spawn("go", fn)
}

//go:norace
func chanPtr(ch interface{}) (reflect.Value, uintptr) {
	v := reflect.ValueOf(ch)
	if v.Kind() != reflect.Chan {
		panic("vsync: not a channel")
	}
	return v, v.Pointer()
}

// AwaitRecv blocks in the model until a receive on ch would not block.
//
//go:norace
func AwaitRecv(ch interface{}) {
	v, p := chanPtr(ch)
	if v.IsNil() {
		vsched.Block(vsched.KChanRecv, "nil chan", func() bool { return false })
		return
	}
	vsched.Block(vsched.KChanRecv, p, func() bool {
		return v.Len() > 0 || (vsched.X() != nil && vsched.X().IsClosed(p))
	})
}

// AwaitSend blocks in the model until a send on ch would not block.
//
//go:norace
func AwaitSend(ch interface{}) {
	v, p := chanPtr(ch)
	if v.IsNil() {
		vsched.Block(vsched.KChanSend, "nil chan", func() bool { return false })
		return
	}
	if v.Cap() == 0 {
		if vsched.On() {
			vsched.Failf("harness limitation: send on unbuffered channel is not modelled")
		}
		return
	}
	vsched.Block(vsched.KChanSend, p, func() bool {
		return v.Len() < v.Cap() || (vsched.X() != nil && vsched.X().IsClosed(p))
	})
}

// BeforeClose is the scheduling point before close(ch).
//
//go:norace
func BeforeClose(ch interface{}) {
	_, p := chanPtr(ch)
	vsched.Point(vsched.KChanClose, p, nil)
}

// ChanKey returns the identity under which operations on ch are recorded.
//
//go:norace
func ChanKey(ch interface{}) uintptr {
	_, p := chanPtr(ch)
	return p
}

// Closed records that ch has been closed so that receivers wake up.
//
//go:norace
func Closed(ch interface{}) {
	if x := vsched.X(); x != nil {
		_, p := chanPtr(ch)
		x.MarkClosed(p, ch)
	}
}

// CloseNote must be used by harness code that closes channels itself.
//
//go:norace
func CloseNote(ch interface{}) { Closed(ch) }

// PreClosed registers a channel that was closed before any run (e.g. a package-level closed channel).
var preClosed = map[uintptr]bool{}

// Map is sync.Map (unused by the instrumented packages, kept for API parity).
type Map struct {
	mu Mutex
	m  map[interface{}]interface{}
}

//go:norace
func (m *Map) Load(k interface{}) (interface{}, bool) {
	m.mu.Lock()
	defer m.mu.Unlock()
	v, ok := m.m[k]
	return v, ok
}

//go:norace
func (m *Map) Store(k, v interface{}) {
	m.mu.Lock()
	defer m.mu.Unlock()
	if m.m == nil {
		m.m = map[interface{}]interface{}{}
	}
	m.m[k] = v
}

//go:norace
func (m *Map) Delete(k interface{}) {
	m.mu.Lock()
	defer m.mu.Unlock()
	delete(m.m, k)
}

// SelectPoint is the scheduling point before a non-blocking select (a poll of channel state).
//
//go:norace
func SelectPoint(chans ...interface{}) {
	var m vsched.Multi
	for _, c := range chans {
		v := reflect.ValueOf(c)
		if v.Kind() == reflect.Chan && !v.IsNil() {
			m = append(m, v.Pointer())
		}
	}
	if len(m) == 0 {
		vsched.Point(vsched.KChanRecv, nil, nil)
		return
	}
	vsched.Point(vsched.KChanRecv, m, nil)
}

// Yield is an explicit scheduling point (used for injected yields).
//
//go:norace
func Yield() { vsched.Yield() }

// ExitError is the panic value raised instead of ending the process when instrumented code calls os.Exit
// (the framework's Fatalf): the harness observes the exit as a panic of the calling thread.
type ExitError struct{ Code int }

func (e ExitError) Error() string { return fmt.Sprintf("os.Exit(%d)", e.Code) }

// Exit replaces os.Exit in instrumented packages.
//
//go:norace
func Exit(code int) { panic(ExitError{code}) }
