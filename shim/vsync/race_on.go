//go:build race

package vsync

import (
	"runtime"
	"unsafe"
)

// RaceEnabled reports whether the build has the race detector.
const RaceEnabled = true

func raceAcquire(p unsafe.Pointer)      { runtime.RaceAcquire(p) }
func raceRelease(p unsafe.Pointer)      { runtime.RaceRelease(p) }
func raceReleaseMerge(p unsafe.Pointer) { runtime.RaceReleaseMerge(p) }
