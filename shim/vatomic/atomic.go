// Package vatomic replaces sync/atomic in instrumented builds: every
// operation is a scheduling point followed by the real atomic operation
// (which keeps the race detector's view of atomics intact).
package vatomic

import (
	"sync/atomic"

	"verif/shim/vsched"
)

//go:norace
func pt(addr interface{}) { vsched.Point(vsched.KAtomic, addr, nil) }

//go:norace
func ld(addr interface{}) { vsched.Point(vsched.KAtomicLoad, addr, nil) }

type Value = atomic.Value

//go:norace
func AddInt32(addr *int32, delta int32) int32 { pt(addr); return atomic.AddInt32(addr, delta) }

//go:norace
func AddInt64(addr *int64, delta int64) int64 { pt(addr); return atomic.AddInt64(addr, delta) }

//go:norace
func AddUint32(addr *uint32, delta uint32) uint32 {
	pt(addr)
	return atomic.AddUint32(addr, delta)
}

//go:norace
func AddUint64(addr *uint64, delta uint64) uint64 {
	pt(addr)
	return atomic.AddUint64(addr, delta)
}

//go:norace
func LoadInt32(addr *int32) int32 { ld(addr); return atomic.LoadInt32(addr) }

//go:norace
func LoadInt64(addr *int64) int64 { ld(addr); return atomic.LoadInt64(addr) }

//go:norace
func LoadUint32(addr *uint32) uint32 { ld(addr); return atomic.LoadUint32(addr) }

//go:norace
func LoadUint64(addr *uint64) uint64 { ld(addr); return atomic.LoadUint64(addr) }

//go:norace
func StoreInt32(addr *int32, v int32) { pt(addr); atomic.StoreInt32(addr, v) }

//go:norace
func StoreInt64(addr *int64, v int64) { pt(addr); atomic.StoreInt64(addr, v) }

//go:norace
func StoreUint32(addr *uint32, v uint32) { pt(addr); atomic.StoreUint32(addr, v) }

//go:norace
func StoreUint64(addr *uint64, v uint64) { pt(addr); atomic.StoreUint64(addr, v) }

//go:norace
func SwapInt32(addr *int32, v int32) int32 { pt(addr); return atomic.SwapInt32(addr, v) }

//go:norace
func SwapInt64(addr *int64, v int64) int64 { pt(addr); return atomic.SwapInt64(addr, v) }

//go:norace
func SwapUint32(addr *uint32, v uint32) uint32 { pt(addr); return atomic.SwapUint32(addr, v) }

//go:norace
func SwapUint64(addr *uint64, v uint64) uint64 { pt(addr); return atomic.SwapUint64(addr, v) }

//go:norace
func CompareAndSwapInt32(addr *int32, o, n int32) bool {
	pt(addr)
	return atomic.CompareAndSwapInt32(addr, o, n)
}

//go:norace
func CompareAndSwapInt64(addr *int64, o, n int64) bool {
	pt(addr)
	return atomic.CompareAndSwapInt64(addr, o, n)
}

//go:norace
func CompareAndSwapUint32(addr *uint32, o, n uint32) bool {
	pt(addr)
	return atomic.CompareAndSwapUint32(addr, o, n)
}

//go:norace
func CompareAndSwapUint64(addr *uint64, o, n uint64) bool {
	pt(addr)
	return atomic.CompareAndSwapUint64(addr, o, n)
}
