// Package vpool replaces github.com/henrylee2cn/goutil/pool in instrumented
// builds: the go-pool's functions spawn scheduler threads instead of using the
// real pool's private worker goroutines and channels.
package vpool

import (
	"context"
	"time"

	"verif/shim/vsync"
)

type GoPool struct {
	max  int
	idle time.Duration
}

//go:norace
func NewGoPool(maxGoroutinesAmount int, maxGoroutineIdleDuration time.Duration) *GoPool {
	return &GoPool{max: maxGoroutinesAmount, idle: maxGoroutineIdleDuration}
}

//go:norace
func (gp *GoPool) MaxGoroutinesAmount() int { return gp.max }

//go:norace
func (gp *GoPool) MaxGoroutineIdle() time.Duration { return gp.idle }

//go:norace
func (gp *GoPool) Stop() {}

//go:norace
func (gp *GoPool) Go(fn func()) error { vsync.Go(fn); return nil }

//go:norace
func (gp *GoPool) TryGo(fn func()) { vsync.Go(fn) }

//go:norace
func (gp *GoPool) MustGo(fn func(), ctx ...context.Context) error {
	vsync.Go(fn)
	return nil
}

// ---- Workshop: the multiplexed resource pool used by mixer/multiclient ----
// A deterministic re-implementation of goutil/pool.Workshop's documented behaviour (hire an idle healthy worker,
// else create one while below the quota, else the least loaded healthy one; unhealthy workers are closed and
// dropped) without the background collector goroutine and its clock.

type Worker interface {
	Health() bool
	Close() error
}

type WorkshopStats struct {
	Worker  int32
	Idle    int32
	Created uint64
	Doing   int32
	Done    uint64
	MaxLoad int32
	MinLoad int32
}

var ErrWorkshopClosed = errWorkshopClosed{}

type errWorkshopClosed struct{}

func (errWorkshopClosed) Error() string { return "workshop is closed" }

type wsInfo struct {
	w    Worker
	jobs int
}

type Workshop struct {
	mu     vsync.Mutex
	quota  int
	newFn  func() (Worker, error)
	infos  []*wsInfo
	closed bool
	stats  WorkshopStats
}

//go:norace
func NewWorkshop(maxQuota int, maxIdleDuration time.Duration, newWorkerFunc func() (Worker, error)) *Workshop {
	if maxQuota <= 0 {
		maxQuota = 64
	}
	return &Workshop{quota: maxQuota, newFn: newWorkerFunc}
}

//go:norace
func (w *Workshop) dropUnhealthyLocked() {
	kept := w.infos[:0]
	for _, in := range w.infos {
		if in.w.Health() {
			kept = append(kept, in)
		} else if in.jobs == 0 {
			in.w.Close()
		} else {
			in.w.Close()
		}
	}
	w.infos = kept
}

//go:norace
func (w *Workshop) Hire() (Worker, error) {
	w.mu.Lock()
	defer w.mu.Unlock()
	if w.closed {
		return nil, ErrWorkshopClosed
	}
	w.dropUnhealthyLocked()
	var best *wsInfo
	for _, in := range w.infos {
		if best == nil || in.jobs < best.jobs {
			best = in
		}
	}
	if best != nil && (best.jobs == 0 || len(w.infos) >= w.quota) {
		best.jobs++
		w.stats.Doing++
		return best.w, nil
	}
	nw, err := w.newFn()
	if err != nil {
		return nil, err
	}
	w.infos = append(w.infos, &wsInfo{w: nw, jobs: 1})
	w.stats.Created++
	w.stats.Doing++
	return nw, nil
}

//go:norace
func (w *Workshop) Fire(worker Worker) {
	w.mu.Lock()
	defer w.mu.Unlock()
	for _, in := range w.infos {
		if in.w == worker {
			in.jobs--
			w.stats.Doing--
			w.stats.Done++
			return
		}
	}
	if worker != nil {
		worker.Close()
	}
}

//go:norace
func (w *Workshop) Callback(fn func(Worker) error) error {
	wk, err := w.Hire()
	if err != nil {
		return err
	}
	defer w.Fire(wk)
	return fn(wk)
}

//go:norace
func (w *Workshop) Close() {
	w.mu.Lock()
	defer w.mu.Unlock()
	w.closed = true
	for _, in := range w.infos {
		in.w.Close()
	}
	w.infos = nil
}

//go:norace
func (w *Workshop) Stats() WorkshopStats {
	w.mu.Lock()
	defer w.mu.Unlock()
	s := w.stats
	s.Worker = int32(len(w.infos))
	return s
}
