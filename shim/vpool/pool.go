// Package vpool replaces github.com/henrylee2cn/goutil/pool in instrumented
// builds: the go-pool's functions spawn scheduler threads instead of using the
// real pool's private worker goroutines and channels.
package vpool

import (
	"context"
	"time"

	"verif/shim/vsync"
)

type GoPool struct {
	max  int
	idle time.Duration
}

//go:norace
func NewGoPool(maxGoroutinesAmount int, maxGoroutineIdleDuration time.Duration) *GoPool {
	return &GoPool{max: maxGoroutinesAmount, idle: maxGoroutineIdleDuration}
}

//go:norace
func (gp *GoPool) MaxGoroutinesAmount() int { return gp.max }

//go:norace
func (gp *GoPool) MaxGoroutineIdle() time.Duration { return gp.idle }

//go:norace
func (gp *GoPool) Stop() {}

//go:norace
func (gp *GoPool) Go(fn func()) error { vsync.Go(fn); return nil }

//go:norace
func (gp *GoPool) TryGo(fn func()) { vsync.Go(fn) }

//go:norace
func (gp *GoPool) MustGo(fn func(), ctx ...context.Context) error {
	vsync.Go(fn)
	return nil
}
