// Package vmap wraps goutil.Map implementations so that every method is one
// scheduling point, Range order is deterministic, and a thread that would
// block behind the real RW lock of an RwMap blocks in the model instead.
package vmap

import (
	"fmt"
	"sort"

	"github.com/henrylee2cn/goutil"

	"verif/shim/vsched"
	"verif/shim/vsync"
)

type atomicMap struct {
	in goutil.Map
}

// AtomicMap mirrors goutil.AtomicMap.
//
//go:norace
func AtomicMap() goutil.Map { return &atomicMap{in: goutil.AtomicMap()} }

//go:norace
func (m *atomicMap) pt() { vsched.Point(vsched.KMap, m, nil) }

//go:norace
func (m *atomicMap) rd() { vsched.Point(vsched.KMapRead, m, nil) }

//go:norace
func (m *atomicMap) String() string { return "AtomicMap" }

//go:norace
func (m *atomicMap) Load(key interface{}) (interface{}, bool) { m.rd(); return m.in.Load(key) }

//go:norace
func (m *atomicMap) Store(key, value interface{}) { m.pt(); m.in.Store(key, value) }

//go:norace
func (m *atomicMap) LoadOrStore(key, value interface{}) (interface{}, bool) {
	m.pt()
	return m.in.LoadOrStore(key, value)
}

//go:norace
func (m *atomicMap) Delete(key interface{}) { m.pt(); m.in.Delete(key) }

//go:norace
func (m *atomicMap) Clear() { m.pt(); m.in.Clear() }

//go:norace
func (m *atomicMap) Len() int { m.rd(); return m.in.Len() }

//go:norace
func (m *atomicMap) Random() (interface{}, interface{}, bool) {
	m.pt()
	ks := sortedKeys(m.in)
	if len(ks) == 0 {
		return nil, nil, false
	}
	i := vsched.Choose(len(ks), "map.Random")
	v, ok := m.in.Load(ks[i])
	return ks[i], v, ok
}

// Range visits the keys present at the start in sorted order, loading each
// value at visit time (entries deleted meanwhile are skipped), which is within
// the documented behaviour of sync.Map.Range. The callback may block.
//
//go:norace
func (m *atomicMap) Range(f func(key, value interface{}) bool) {
	m.rd()
	for i, k := range sortedKeys(m.in) {
		if i > 0 {
			m.rd() // the value is (re)read after the previous callback, which may have yielded
		}
		v, ok := m.in.Load(k)
		if !ok {
			continue
		}
		if !f(k, v) {
			break
		}
	}
}

//go:norace
func sortedKeys(in goutil.Map) []interface{} {
	var ks []interface{}
	in.Range(func(k, _ interface{}) bool { ks = append(ks, k); return true })
	sort.Slice(ks, func(i, j int) bool { return keyLess(ks[i], ks[j]) })
	return ks
}

//go:norace
func keyLess(a, b interface{}) bool {
	switch x := a.(type) {
	case int32:
		if y, ok := b.(int32); ok {
			return x < y
		}
	case string:
		if y, ok := b.(string); ok {
			return x < y
		}
	case int:
		if y, ok := b.(int); ok {
			return x < y
		}
	}
	return fmt.Sprint(a) < fmt.Sprint(b)
}

type rwMap struct {
	in goutil.Map
	mu vsync.RWMutex // mirrors the real map's lock: callbacks of Range run under RLock
}

// RwMap mirrors goutil.RwMap.
//
//go:norace
func RwMap(capacity ...int) goutil.Map { return &rwMap{in: goutil.RwMap(capacity...)} }

//go:norace
func (m *rwMap) String() string { return "RwMap" }

//go:norace
func (m *rwMap) Load(key interface{}) (interface{}, bool) {
	m.mu.RLock()
	defer m.mu.RUnlock()
	return m.in.Load(key)
}

//go:norace
func (m *rwMap) Store(key, value interface{}) {
	m.mu.Lock()
	defer m.mu.Unlock()
	m.in.Store(key, value)
}

//go:norace
func (m *rwMap) LoadOrStore(key, value interface{}) (interface{}, bool) {
	m.mu.Lock()
	defer m.mu.Unlock()
	return m.in.LoadOrStore(key, value)
}

//go:norace
func (m *rwMap) Delete(key interface{}) {
	m.mu.Lock()
	defer m.mu.Unlock()
	m.in.Delete(key)
}

//go:norace
func (m *rwMap) Clear() {
	m.mu.Lock()
	defer m.mu.Unlock()
	m.in.Clear()
}

//go:norace
func (m *rwMap) Len() int {
	m.mu.RLock()
	defer m.mu.RUnlock()
	return m.in.Len()
}

//go:norace
func (m *rwMap) Random() (interface{}, interface{}, bool) {
	m.mu.RLock()
	defer m.mu.RUnlock()
	ks := sortedKeys(m.in)
	if len(ks) == 0 {
		return nil, nil, false
	}
	i := vsched.Choose(len(ks), "map.Random")
	v, ok := m.in.Load(ks[i])
	return ks[i], v, ok
}

// Range holds the (mirrored) read lock while the callbacks run, like the real
// RwMap, but iterates over a sorted snapshot taken under that lock so that the
// real lock is never held across a scheduling point.
//
//go:norace
func (m *rwMap) Range(f func(key, value interface{}) bool) {
	m.mu.RLock()
	defer m.mu.RUnlock()
	type kv struct{ k, v interface{} }
	var all []kv
	m.in.Range(func(k, v interface{}) bool { all = append(all, kv{k, v}); return true })
	sort.Slice(all, func(i, j int) bool { return keyLess(all[i].k, all[j].k) })
	for _, e := range all {
		if !f(e.k, e.v) {
			break
		}
	}
}
