// Package vtime replaces the few blocking uses of package time.
package vtime

import (
	"time"

	"verif/shim/vsched"
	"verif/shim/vsync"
)

// Sleep is a yield in the model: time is not modelled, only ordering.
//
//go:norace
func Sleep(d time.Duration) { vsched.Point(vsched.KSleep, nil, nil) }

// Ticker mirrors time.Ticker; ticks are environment events fired by the harness.
type Ticker struct {
	C       chan time.Time
	stopped bool
}

var tickers []*Ticker

//go:norace
func init() { vsched.OnReset(func() { tickers = nil }) }

// NewTicker creates a ticker that never fires by itself.
//
//go:norace
func NewTicker(d time.Duration) *Ticker {
	t := &Ticker{C: make(chan time.Time, 1)}
	tickers = append(tickers, t)
	return t
}

// Stop stops the ticker.
//
//go:norace
func (t *Ticker) Stop() { t.stopped = true }

// Reset mirrors time.Ticker.Reset.
//
//go:norace
func (t *Ticker) Reset(d time.Duration) { t.stopped = false }

// Tickers returns the live tickers created since the last reset (harness use).
//
//go:norace
func Tickers() []*Ticker {
	var out []*Ticker
	for _, t := range tickers {
		if !t.stopped {
			out = append(out, t)
		}
	}
	return out
}

// Fire delivers one tick (dropped if the previous one is still unread, like a real ticker).
//
//go:norace
func (t *Ticker) Fire() bool {
	vsched.Point(vsched.KChanSend, vsync.ChanKey(t.C), nil)
	if t.stopped {
		return false
	}
	select {
	case t.C <- time.Time{}:
		return true
	default:
		return false
	}
}
