#!/bin/bash
# usage: seedprep.sh <dir>   -- scratch git worktree of /repo (detached HEAD) for a seeding sub-agent.
# The worktree gets a `go build -overlay` file that replaces quic/ with a stub so that test binaries
# linking the root package can start on this toolchain (that is all the agent gets besides the sources).
set -e
d=$1
git -C /repo worktree add --detach "$d" HEAD >/dev/null 2>&1
mkdir -p "$d/.quicstub"
cp "$(dirname "$0")/overlay/quic_stub.go.txt" "$d/.quicstub/quic.go"
printf 'package quic\n' > "$d/.quicstub/inherit.go"
cat > "$d/.demo_overlay.json" <<E
{"Replace": {"$d/quic/quic.go": "$d/.quicstub/quic.go", "$d/quic/inherit.go": "$d/.quicstub/inherit.go"}}
E
printf '.quicstub/\n.demo_overlay.json\nseed.patch\nseed_meta.json\n' >> "$d/.git_info_exclude_tmp"
gd=$(git -C "$d" rev-parse --git-dir)
mkdir -p "$gd/info"; cat "$d/.git_info_exclude_tmp" >> "$gd/info/exclude"; rm "$d/.git_info_exclude_tmp"
echo "$d"
