#!/usr/bin/env python3
"""Generates MANIFEST.json from the table below (kept in one place so it stays valid)."""
import json, sys

claimed = {
 "C02": dict(category="model_checking", design="DESIGN.md §3 C02",
   text="Every interleaving (up to the stated preemption bound) of call issue, frame write, reply arrival, local/remote close and connection break, crossed with a cut at every byte offset of request and reply stream and a hostile-reply alphabet, is executed on the real code under a controlled scheduler; hangs are decided exactly as deadlocks of the closed system, double completion as an escaped panic or a second delivery.",
   note="Trusted base: vinstr rewrite + shims (vsync/vatomic/vnet) + the bounded scenario set; raw protocol, 1 call in flight in quick tier.",
   technique="stateless model checking of the implementation: DFS over schedules with preemption bound + exhaustive fault-offset enumeration"),
 "C07": dict(category="model_checking", design="DESIGN.md §3 C07",
   text="All operation histories up to depth 4 (quick) / 5 (thorough) over accept, hook reject, colliding and fresh SetID, call, local close, remote close, cut and peer close are executed on real peers and the lifecycle/index invariants are evaluated in every quiescent state; all interleavings (preemption bound 2/3) of Close against remote close, cut, a second Close and of colliding SetIDs are explored with a status observer.",
   note="Trusted base: vinstr + shims; 2-3 connections; no redial; dial path covered by C13.",
   technique="explicit-state enumeration of operation histories on the implementation + stateless schedule exploration with preemption bound and happens-before state caching"),
 "C01": dict(category="model_checking", design="DESIGN.md §3 C01",
   text="Concurrent tagged Call/AsyncCall/Push operations (2-3 threads; one session, both directions, two sessions) are run under every interleaving up to the preemption bound on real peers; the complete protocol x body-codec x filter-pipe product (96 configurations) is explored at bound 0 (all non-preemptive schedules), the raw/json configuration at bound 1 (quick) and 7 configurations at bound 2 (thorough). Oracles compare every result, reply metadata, handler input and push input with the sender's tag, re-read handler inputs after a yield, and compare the multiset handled with the multiset sent.",
   note="Trusted base: vinstr + shims; LIFO pools (adversarial for reuse); http protocol and websocket mixers not covered.",
   technique="stateless model checking of the implementation: DFS over schedules with preemption bound + happens-before state caching"),
 "C08": dict(category="model_checking", design="DESIGN.md §3 C08",
   text="Session.Close and Peer.Close are placed at every point (all interleavings up to the preemption bound) of the handler-entry / handler-step / reply-write / reply-arrival timeline for an inbound and an outbound call; the order of handler entry/exit, reply write, Close call and Close return is part of the explored state and the oracle is evaluated on that event log.",
   note="Trusted base: vinstr + shims; one call per direction in quick tier, bound 1 (quick) / 2 (thorough).",
   technique="stateless model checking of the implementation: DFS over schedules with preemption bound + happens-before state caching"),
 "C03": dict(category="model_checking", design="DESIGN.md §3 C03",
   text="A scripted raw peer sends every frame of a 1152-frame alphabet (type byte x route x body x codec id x metadata), for 6 plugin-veto settings and with/without unknown-handlers, to a real server, followed by a probe call when the connection stays up; every non-preemptive schedule is explored, and every pair of back-to-back frames (same/different sequence number; returning, erroring, panicking, blocking handlers, pushes) under all interleavings up to the bound. The oracle parses the server's output with an independent frame parser: per CALL at most one handler run and exactly one REPLY unless disconnected, PUSH never answered, unsupported type => disconnect and no handler.",
   note="Trusted base: vinstr + shims + the independent raw-frame model in world/rawframe.go; raw protocol only.",
   technique="exhaustive input-alphabet enumeration crossed with stateless schedule exploration (preemption bound) on the implementation"),
 "C04": dict(category="model_checking", design="DESIGN.md §3 C04",
   text="On live sessions every handler status of the alphabet and every framework failure cause is produced and the caller-side (code,msg,cause) compared with the expected triple, over raw/json/pb/thrift-binary under all non-preemptive schedules; at frame level a REPLY carrying every status of the full alphabet is packed and unpacked by every shipped protocol including both websocket sub-protocols.",
   note="Trusted base: vinstr + shims; thrift-struct and http protocols not covered; the protobuf websocket sub-protocol's missing status field is a known finding.",
   technique="exhaustive alphabet enumeration on live sessions under the controlled scheduler + bounded-exhaustive frame enumeration"),
 "C05": dict(category="exploration", design="DESIGN.md §3 C05",
   text="Bounded-exhaustive enumeration of messages (one-factor over full field alphabets + full product of reduced alphabets) and of frame sequences x chunkings per protocol, compared field by field with a reference model, including size stability.",
   note="Values outside the alphabets are not covered; http and thrift-struct protocols not covered; three edge cases are known findings.",
   technique="bounded-exhaustive enumeration against a reference model (no sampling)"),
 "C10": dict(category="exploration", design="DESIGN.md §3 C10",
   text="Both mappers are evaluated on every identifier up to the length bound (totality, determinism, agreement with a reference on the documented sub-language, README table verbatim); dispatch is checked on live sessions for every ordered pair of a 10-element registration zoo under every group nesting, both mappers, with and without unknown-handlers, requesting every returned name and its near-misses as CALL and PUSH.",
   note="The registration zoo is compiled into the harness; names outside it are covered only through the mapper enumeration.",
   technique="bounded-exhaustive enumeration against a reference model; live dispatch under the controlled scheduler (all non-preemptive schedules)"),
 "C11": dict(category="exploration", design="DESIGN.md §3 C11",
   text="Per codec: round trip of a compiled type zoo over boundary values with reflect.DeepEqual; decoder totality on every byte string up to the length bound over a per-codec alphabet and on every prefix / single-byte mutation of valid encodings, into every destination type, with guard bytes.",
   note="Bounded strings and structured mutations only (not the unbounded input space); domain limits listed in scen/c11.go.",
   technique="bounded-exhaustive enumeration against reflect.DeepEqual / totality oracles"),
 "C12": dict(category="exploration", design="DESIGN.md §3 C12",
   text="Every pipe over the registered filters up to the length bound (plus lengths 254-256) x payload set inverts exactly; every single-byte corruption, truncation and extension of md5-packed payloads is rejected; unregistered ids are refused by Append and by Unpack; on live sessions the reply frame carries the caller's pipe for 6 pipes x 4 protocols x handler success/failure.",
   note="Filters registered in the harness: gzip and md5.",
   technique="bounded-exhaustive enumeration + live-session check under the controlled scheduler"),
 "C20": dict(category="model_checking", design="DESIGN.md §3 C20",
   text="Differential enumeration of all first-user operation sequences up to the depth bound on Message, Args, pooled Socket and the handler context, followed by release/re-acquire (identity asserted under the LIFO pool) and every second-user sequence up to length 2; observable state and packed/reply bytes are compared with a fresh object.",
   note="Trusted base: vinstr + shims (LIFO pool guarantees the reuse actually happens).",
   technique="explicit-state enumeration of operation histories on the implementation with a differential (recycled vs fresh) oracle"),
 "C09": dict(category="model_checking", design="DESIGN.md §3 C09",
   text="Every plugin placement/verdict configuration of the alphabet (about 31k executions) is run on live sessions under every non-preemptive schedule and the recorded (plugin, stage, message) trace is compared with a reference trace builder written from the documented stage and registration order, including late appends to the global container, scoping against a second route, sibling chain isolation and the calling-side stages.",
   note="Trusted base: vinstr + shims + the reference trace builder in scen/c09.go.",
   technique="exhaustive configuration enumeration on live sessions under the controlled scheduler against a reference model"),
 "C15": dict(category="model_checking", design="DESIGN.md §3 C15",
   text="All histories up to the depth bound over 14 operations (calls, failure probes, proxied failures, plugin rejections) are executed; afterwards every failure probe and every predefined status is compared with its value before the history.",
   note="Trusted base: vinstr + shims + an accessor (overlay, not in /repo) that lists the package-level predefined statuses.",
   technique="explicit-state enumeration of operation histories on the implementation with a before/after differential oracle"),
 "C16": dict(category="model_checking", design="DESIGN.md §3 C16",
   text="A scripted client sends every first message of the alphabet, with pipelined application frames and every checker verdict, against the real accept path; all interleavings up to the preemption bound; handler/hook counters, AUTH_REPLY count, closure and index absence are checked.",
   note="Trusted base: vinstr + shims; accept path through Peer.ServeConn.",
   technique="exhaustive input-alphabet enumeration crossed with stateless schedule exploration (preemption bound)"),
 "C17": dict(category="model_checking", design="DESIGN.md §3 C17",
   text="The full marker x key x length product is run end to end for two body codecs; argument/result equality, plaintext absence on the captured wire, reply-encryption rule, key mismatch behaviour and byte-identity of unmarked traffic are checked under every non-preemptive schedule.",
   note="Codecs able to carry the envelope in the harness: json, xml.",
   technique="exhaustive configuration enumeration on live sessions under the controlled scheduler"),
 "C18": dict(category="model_checking", design="DESIGN.md §3 C18",
   text="Connection limiter: all histories up to the depth bound against a counter model, plus all interleavings of concurrent connects/disconnects; token bucket: all interleavings of taker threads and refill ticks against the arithmetic bound.",
   note="Trusted base: vinstr + shims (ticker ticks are environment events fired by the harness; the limiter's own goroutine is a scheduler thread).",
   technique="explicit-state history enumeration + stateless schedule exploration (preemption bound, happens-before state caching)"),
 "C19": dict(category="model_checking", design="DESIGN.md §3 C19",
   text="The full 4320-configuration product is run on a live client->proxy->backend chain and compared with the same request sent directly to an identical backend.",
   note="Quick tier uses the deterministic default schedule per configuration; the thorough tier adds all non-preemptive schedules within a budget.",
   technique="exhaustive configuration enumeration on live sessions with a metamorphic (proxied vs direct) oracle"),
}
pending = {}
for i in range(1, 21):
    pid = "C%02d" % i
    if pid not in claimed:
        pending[pid] = "check not built yet in this revision of /verif (planned, see DESIGN.md §3); not claimed"

m = {
 "version": 1,
 "setup_cmd": "cd /verif && ./setup.sh",
 "hooks": {
   "guard": "verif",
   "enable": "no source hooks in /repo: checks build /repo through `go build -overlay` (instrumented copies of the current sources + QUIC stub + read-only accessors generated into /verif/.work at every run)",
   "baseline_off_cmd": "cd /repo && go test -mod=mod -json -vet=off -count=1 -timeout 25m ./...",
   "source_commits": [],
   "add_only": True,
 },
 "engines": [
   {"name": "vsched", "path": "shim/vsched", "serves_properties": sorted(claimed), "kind_free_text": "cooperative scheduler + stateless DFS explorer with preemption bounding over the instrumented implementation"},
   {"name": "venum", "path": "scen", "serves_properties": sorted(k for k in claimed if claimed[k]["category"] != "model_checking"), "kind_free_text": "bounded-exhaustive enumerators with reference models, sharded over worker processes"},
   {"name": "vinstr", "path": "cmd/vinstr", "serves_properties": sorted(claimed), "kind_free_text": "source instrumenter (sync/atomic/chan/go/pool/net -> shims), emits go build overlay from the current /repo tree"},
 ],
 "checks": [],
 "not_applicable": [{"property_id": k, "reason": v} for k, v in sorted(pending.items())],
 "notes": "All checks: ./bin/vcheck <id> <tier>; evidence in evidence/<id>.json; known findings in known_findings.json; replays in replays/.",
}
for pid in sorted(claimed):
    c = claimed[pid]
    m["checks"].append({
      "property_id": pid,
      "quick_cmd": "cd /verif && ./bin/vcheck %s quick" % pid,
      "thorough_cmd": "cd /verif && ./bin/vcheck %s thorough" % pid,
      "evidence_file": "/verif/evidence/%s.json" % pid,
      "replay_cmd_template": "cd /verif && ./bin/vcheck replay {path}",
      "engine": "venum" if c["category"] == "exploration" else "vsched",
      "level_claimed": {"category": c["category"], "text": c["text"], "design_ref": c["design"]},
      "level_note": c["note"],
      "technique": c["technique"],
    })
json.dump(m, open("/verif/MANIFEST.json", "w"), indent=1)
print("manifest written:", len(m["checks"]), "checks,", len(m["not_applicable"]), "not claimed")
