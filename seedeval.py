#!/usr/bin/env python3
"""Evaluate a seeded change produced by a sub-agent.

usage: seedeval.py <worktree> <seed-name> <property> [more properties to run...]

1. confirms in the agent's worktree: existing tests pass with the change, demo fails with it, demo passes without it
2. applies the patch to /repo, runs ./bin/vcheck <property> quick for each property given, reverts /repo
3. stores patch, demo and meta under /verif/seeded/<seed-name>/
"""
import json, os, subprocess, sys, shutil, glob, time

ENV = dict(os.environ, GOFLAGS="-mod=mod", GOPROXY="off", GOSUMDB="off", GOTOOLCHAIN="local")
TESTS = "go test -vet=off -count=1 -skip TestSeedDemo ./codec/... ./socket ./utils/... ./xfer/gzip/... ./mixer/websocket/websocket/..."

def sh(cmd, cwd, timeout=1800):
    p = subprocess.run(cmd, shell=True, cwd=cwd, env=ENV, capture_output=True, text=True, timeout=timeout)
    return p.returncode, (p.stdout + p.stderr)

def main():
    wt, name, props = sys.argv[1], sys.argv[2], sys.argv[3:]
    tier = os.environ.get("SEED_TIER", "quick")
    meta = json.load(open(os.path.join(wt, "seed_meta.json")))
    patch = os.path.join(wt, "seed.patch")
    assert os.path.getsize(patch) > 0, "empty patch"
    out = {"seed": name, "property": meta.get("property"), "summary": meta.get("summary"), "needs": meta.get("needs"), "files": meta.get("files"), "demo_cmd": meta.get("demo_cmd")}
    # make sure the change is applied in the worktree
    rc, o = sh("git apply --check -R seed.patch", wt)
    if rc != 0:
        rc2, o2 = sh("git apply seed.patch", wt)
        assert rc2 == 0, "cannot apply patch in worktree: " + o2
    rc, o = sh(TESTS, wt)
    out["existing_tests_pass_with_change"] = (rc == 0)
    demo = meta.get("demo_cmd")
    rc, o = sh(demo, wt, timeout=900)
    out["demo_fails_with_change"] = (rc != 0)
    out["demo_output_with_change"] = o[-1500:]
    sh("git apply -R seed.patch", wt)
    rc, o = sh(demo, wt, timeout=900)
    out["demo_passes_without_change"] = (rc == 0)
    if rc != 0:
        out["demo_output_without_change"] = o[-1500:]
    sh("git apply seed.patch", wt)
    # run my checks against it
    rc, o = sh("git status --porcelain", "/repo")
    assert o.strip() == "", "/repo is dirty: " + o
    rc, o = sh("git apply " + patch, "/repo")
    assert rc == 0, "patch does not apply to /repo: " + o
    out["checks"] = {}
    try:
        for pr in props:
            t0 = time.time()
            rc, o = sh("./bin/vcheck %s %s" % (pr, tier), "/verif", timeout=7200)
            lines = [l for l in o.splitlines() if l.startswith("VIOLATION") or l.startswith("  ") or l.startswith("HARNESS") or l.startswith("KNOWN") or l.startswith(pr)]
            out["checks"][pr] = {"tier": tier, "exit": rc, "detected": rc == 1, "wall_s": round(time.time() - t0, 1), "output": "\n".join(lines)[-2500:]}
    finally:
        sh("git checkout -- .", "/repo")
        sh("git clean -fdq", "/repo")
    d = os.path.join("/verif/seeded", name)
    os.makedirs(d, exist_ok=True)
    shutil.copy(patch, os.path.join(d, "patch.diff"))
    for f in glob.glob(os.path.join(wt, "**", "zz_seed_demo*"), recursive=True) + glob.glob(os.path.join(wt, "**", "*seed_demo*"), recursive=True):
        if os.path.isfile(f):
            shutil.copy(f, os.path.join(d, os.path.basename(f) + ".txt"))
    out["ran"] = "existing tests with change; demo with and without change in a scratch worktree; ./bin/vcheck <property> %s on /repo with the patch applied, then reverted" % tier
    json.dump(out, open(os.path.join(d, "meta.json"), "w"), indent=1)
    print({k: out[k] for k in ["existing_tests_pass_with_change", "demo_fails_with_change", "demo_passes_without_change"]})
    for p, c in out["checks"].items():
        print(p, "DETECTED" if c["detected"] else "MISSED", "exit", c["exit"], c["wall_s"], "s")
        print(c["output"][:900])

main()
