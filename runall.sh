#!/bin/bash
# usage: runall.sh <quick|thorough> [ids...]  -- runs the registered checks one after the other, prints one summary line each
cd "$(dirname "$0")"
tier=${1:-quick}; shift
ids=${@:-C01 C02 C03 C04 C05 C06 C07 C08 C09 C10 C11 C12 C13 C14 C15 C16 C17 C18 C19 C20}
for c in $ids; do
  s=$(date +%s)
  out=$(./bin/vcheck $c $tier 2>&1); rc=$?
  echo "$c exit=$rc $(( $(date +%s) - s ))s | $(echo "$out" | grep "^$c $tier:" | tail -1)"
  echo "$out" | grep "^VIOLATION\|^HARNESS\|^  " | head -6
done
