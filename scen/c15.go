package scen

import (
	"errors"
	"fmt"
	"io"
	"net"
	"os"
	"sort"
	"syscall"

	erpc "github.com/henrylee2cn/erpc/v6"
	"github.com/henrylee2cn/erpc/v6/plugin/auth"
	"github.com/henrylee2cn/erpc/v6/plugin/overloader"
	"github.com/henrylee2cn/erpc/v6/plugin/proxy"
	"github.com/henrylee2cn/erpc/v6/plugin/secure"

	"verif/shim/vnet"
	"verif/shim/vsched"
	"verif/world"
)

func init() { Sched["c15"] = c15 }

var pristine map[string][3]string

func sentinelTriples() map[string][3]string {
	out := map[string][3]string{}
	for name, st := range erpc.VerifSentinels() {
		c := ""
		if e := st.Cause(); e != nil {
			c = e.Error()
		}
		out[name] = [3]string{fmt.Sprint(st.Code()), st.Msg(), c}
	}
	return out
}

// restoreSentinels undoes any corruption of the process-global predefined statuses left by an earlier execution.
func restoreSentinels() {
	if pristine == nil {
		pristine = sentinelTriples()
		return
	}
	for name, st := range erpc.VerifSentinels() {
		p := pristine[name]
		var code int32
		fmt.Sscanf(p[0], "%d", &code)
		st.SetCode(code)
		st.SetMsg(p[1])
		st.SetCause(p[2])
	}
}

// c15: the status observed for a given failure does not depend on the history of the process.
func c15(p Params) func() {
	depth := p.Int("depth", 2)
	return func() {
		begin()
		restoreSentinels()
		before := sentinelTriples()
		srv := world.NewPeer("json")
		hEcho := srv.RouteCallFunc(func(ctx erpc.CallCtx, a *string) (*string, *erpc.Status) {
			if *a == "panic" {
				panic("boom")
			}
			return a, nil
		})
		hInt := srv.RouteCallFunc(func(ctx erpc.CallCtx, a *int) (*int, *erpc.Status) { return a, nil })
		hPush := srv.RoutePushFunc(func(ctx erpc.PushCtx, a *string) *erpc.Status { return nil })
		cli := world.NewPeer("json")
		cs, _, _ := world.Connect(cli, srv, nil)
		// a session that is closed from the start (for the closed-session probes)
		dead, _, _ := world.Connect(cli, srv, nil)
		dead.Close()
		vsched.Quiesce()

		type probe struct {
			name string
			f    func() *erpc.Status
		}
		probes := []probe{
			{"call_closed", func() *erpc.Status { var r string; return dead.Call(hEcho, "x", &r).Status() }},
			{"push_closed", func() *erpc.Status { return dead.Push(hPush, "x") }},
			{"unknown_route", func() *erpc.Status { var r string; return cs.Call("/nope", "x", &r).Status() }},
			{"bad_arg", func() *erpc.Status { var r string; return cs.Call(hInt, "not-int", &r).Status() }},
			{"panic", func() *erpc.Status { var r string; return cs.Call(hEcho, "panic", &r).Status() }},
			{"presend_unprepared", func() *erpc.Status { return cs.(erpc.PreSession).PreSend(erpc.TypeCall, "/x", nil, nil) }},
			{"dial_down", func() *erpc.Status { _, st := cli.Dial("10.9.9.9:9"); return st }},
		}
		base := map[string]string{}
		for _, pr := range probes {
			base[pr.name] = triple(pr.f())
		}
		vsched.Quiesce()

		// history operations
		var toBackend erpc.Session
		be := world.NewPeer("json")
		beFail := be.RouteCallFunc(func(ctx erpc.CallCtx, a *[]byte) ([]byte, *erpc.Status) {
			return nil, erpc.NewStatus(1500, "backend error", "x")
		})
		px := world.NewPeer("json", proxy.NewPlugin(func(*proxy.Label) proxy.Forwarder { return toBackend }))
		var beSide erpc.Session
		toBackend, beSide, _ = world.Connect(px, be, nil)
		pcs, _, _ := world.Connect(cli, px, nil)
		backendDown := false
		down := func() {
			if !backendDown {
				backendDown = true
				beSide.Close()
				vsched.Quiesce()
			}
		}
		ops := []probe{
			{"ok_call", func() *erpc.Status { var r string; return cs.Call(hEcho, "x", &r).Status() }},
			{"proxied_call_backend_error", func() *erpc.Status {
				if backendDown {
					return nil
				}
				var r []byte
				return pcs.Call(beFail, []byte(`"x"`), &r).Status()
			}},
			{"proxied_call_backend_down", func() *erpc.Status { down(); var r []byte; return pcs.Call("/any", []byte(`"x"`), &r).Status() }},
			{"proxied_push_backend_down", func() *erpc.Status { down(); st := pcs.Push("/anyp", []byte(`"x"`)); vsched.Quiesce(); return st }},
			{"secure_key_mismatch", func() *erpc.Status {
				s1 := world.NewPeer("json", secure.NewPlugin(9001, "0123456789abcdef"))
				h := s1.RouteCallFunc(func(ctx erpc.CallCtx, a *string) (*string, *erpc.Status) { return a, nil })
				c1 := world.NewPeer("json", secure.NewPlugin(9002, "fedcba9876543210"))
				x, _, _ := world.Connect(c1, s1, nil)
				var r string
				return x.Call(h, "x", &r, secure.WithSecureMeta()).Status()
			}},
			{"auth_reject", func() *erpc.Status {
				s1 := world.NewPeer("json", auth.NewCheckerPlugin(func(sess auth.Session, recv auth.RecvOnce) (interface{}, *erpc.Status) {
					var tok string
					recv(&tok)
					return nil, erpc.NewStatus(erpc.CodeUnauthorized, "no", "")
				}))
				raw, sc := vnet.Pipe(vnet.NewAddr(), vnet.NewAddr())
				raw.Write(world.Frame{Seq: 1, Mtype: erpc.TypeAuthCall, Codec: 'j', Body: []byte(`"t"`)}.Bytes())
				_, st := s1.ServeConn(sc)
				return st
			}},
			{"overload_reject", func() *erpc.Status {
				s1 := world.NewPeer("json", overloader.New(overloader.LimitConfig{MaxConn: 1}))
				_, sc := vnet.Pipe(vnet.NewAddr(), vnet.NewAddr())
				s1.ServeConn(sc)
				_, sc2 := vnet.Pipe(vnet.NewAddr(), vnet.NewAddr())
				_, st := s1.ServeConn(sc2)
				return st
			}},
		}
		ops = append(ops,
			probe{"pending_call_cut_by_bad_frame", func() *erpc.Status {
				raw, cc := vnet.Pipe(vnet.NewAddr(), vnet.NewAddr())
				x, _ := cli.ServeConn(cc)
				var r string
				cmd := x.AsyncCall("/a", "x", &r, make(chan erpc.CallCmd, 1))
				vsched.Quiesce()
				raw.Write([]byte{0, 0, 0, 2}) // a frame shorter than its own length prefix: a non-EOF read error
				vsched.Quiesce()
				if !world.IsDone(cmd) {
					vsched.Failf("pending call not completed after the connection delivered a corrupt frame")
				}
				return cmd.Status()
			}},
			probe{"unknown_route_reply_write_fails", func() *erpc.Status {
				x, _, l := world.Connect(cli, srv, nil)
				l.B.FailWrites(errors.New("transient write error"))
				var r string
				x.AsyncCall("/nope", "x", &r, make(chan erpc.CallCmd, 1))
				vsched.Quiesce()
				l.A.Break()
				return nil
			}},
			probe{"ok_reply_write_fails", func() *erpc.Status {
				x, _, l := world.Connect(cli, srv, nil)
				l.B.FailWrites(errors.New("transient write error"))
				var r string
				x.AsyncCall(hEcho, "x", &r, make(chan erpc.CallCmd, 1))
				vsched.Quiesce()
				l.A.Break()
				return nil
			}},
			probe{"push_write_fails", func() *erpc.Status {
				x, _, l := world.Connect(cli, srv, nil)
				l.A.FailWrites(errors.New("transient write error"))
				st := x.Push(hPush, "x")
				x.Close()
				return st
			}},
		)
		// writes that fail with the errors a vanished connection produces (end of file, closed pipe, broken pipe, reset)
		for _, we := range []struct {
			n string
			e error
		}{
			{"eof", io.EOF},
			{"closedpipe", io.ErrClosedPipe},
			{"epipe", &net.OpError{Op: "write", Net: "tcp", Err: os.NewSyscallError("write", syscall.EPIPE)}},
			{"reset", &net.OpError{Op: "write", Net: "tcp", Err: os.NewSyscallError("write", syscall.ECONNRESET)}},
		} {
			we := we
			ops = append(ops, probe{"push_write_fails_" + we.n, func() *erpc.Status {
				x, _, l := world.Connect(cli, srv, nil)
				l.A.FailWrites(we.e)
				st := x.Push(hPush, "x")
				x.Close()
				return st
			}})
		}
		for _, pr := range probes {
			ops = append(ops, pr)
		}
		hist := ""
		for i := 0; i < depth; i++ {
			k := vsched.Choose(len(ops), "op")
			hist += ops[k].name + " "
			ops[k].f()
			vsched.Quiesce()
		}
		for _, pr := range probes {
			if got := triple(pr.f()); got != base[pr.name] {
				vsched.Failf("failure %s reported %s before and %s after the history | %s", pr.name, base[pr.name], got, hist)
			}
		}
		after := sentinelTriples()
		var names []string
		for n := range before {
			names = append(names, n)
		}
		sort.Strings(names)
		for _, n := range names {
			if before[n] != after[n] {
				vsched.Failf("predefined status %s changed from %q to %q | %s", n, before[n], after[n], hist)
			}
		}
		vsched.Logf("%s", hist)
	}
}
