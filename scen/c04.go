package scen

import (
	"fmt"
	"math"

	erpc "github.com/henrylee2cn/erpc/v6"

	"verif/shim/vsched"
	"verif/world"
)

func init() { Sched["c04_live"] = c04Live }

var c04Codes = []int32{1, -1, 99, 100, 102, 199, 200, 400, 404, 500, 1000, math.MaxInt32, math.MinInt32}
var c04Strs = []string{"", "a", "a b", "&", "=", "%", "%zz", "+", "\"", "\\", "é", "\x00"}
var c04StrsShort = []string{"", "a b", "&=%", "%zz+", "\"\\", "é\x00"}

func triple(s *erpc.Status) string {
	if s == nil {
		return "(0||)"
	}
	c := ""
	if e := s.Cause(); e != nil {
		c = e.Error()
	}
	return fmt.Sprintf("(%d|%q|%q)", s.Code(), s.Msg(), c)
}

// c04Live: the status a caller observes equals what the handler/framework produced.
//
//	mode=status : handler returns every (code,msg,cause) of the alphabet
//	mode=cause  : framework failure causes
func c04Live(p Params) func() {
	proto := p.Get("proto", "raw")
	mode := p.Get("mode", "status")
	full := p.Get("alphabet", "short") == "full"
	return func() {
		begin()
		strs := c04StrsShort
		if full {
			strs = c04Strs
		}
		var want *erpc.Status
		ran := 0
		var trace []string
		rec := NewRec("rec", &trace)
		srv := world.NewPeer("json", rec)
		hStatus := srv.RouteCallFunc(func(ctx erpc.CallCtx, arg *string) (*string, *erpc.Status) {
			ran++
			if *arg == "panic" {
				panic("boom")
			}
			if want != nil {
				return nil, want
			}
			r := "v:" + *arg
			return &r, nil
		})
		hInt := srv.RouteCallFunc(func(ctx erpc.CallCtx, arg *int) (*int, *erpc.Status) {
			ran++
			return arg, nil
		})
		cli := world.NewPeer("json")
		cs, ss, _ := world.Connect(cli, srv, world.Proto(proto))
		switch mode {
		case "status":
			code := c04Codes[vsched.Choose(len(c04Codes), "code")]
			msg := strs[vsched.Choose(len(strs), "msg")]
			cause := strs[vsched.Choose(len(strs), "cause")]
			want = erpc.NewStatus(code, msg, cause)
			var res string
			st := cs.Call(hStatus, "x", &res).Status()
			if triple(st) != triple(want) {
				if proto == "http" && cause == "" && st.Code() == code && st.Msg() == msg && st.Cause() != nil && st.Cause().Error() == msg {
					vsched.Failf("http: a status with an explicit empty cause is received with the message as its cause | handler %s caller %s", triple(want), triple(st))
				}
				vsched.Failf("handler returned status %s but the caller observed %s (proto %s)", triple(want), triple(st), proto)
			}
			if ran != 1 {
				vsched.Failf("handler ran %d times", ran)
			}
			vsched.Logf("code=%d", code)
		case "seq":
			// sequences of calls on one session: the status of each call is its own (contexts and messages are recycled in between)
			kinds := []string{"ok", "handler_error", "unknown_route", "bad_arg", "result_mismatch", "ok_other_session"}
			depth := p.Int("depth", 3)
			cs2, _, _ := world.Connect(cli, srv, world.Proto(proto))
			hist := ""
			for i := 0; i < depth; i++ {
				k := kinds[vsched.Choose(len(kinds), "kind")]
				hist += k + " "
				var res string
				switch k {
				case "ok":
					want = nil
					if st := cs.Call(hStatus, "x", &res).Status(); !st.OK() || res != "v:x" {
						vsched.Failf("a successful call (handler returned OK, result decoded) was reported as %s | sequence: %s", triple(st), hist)
					}
				case "ok_other_session":
					want = nil
					if st := cs2.Call(hStatus, "y", &res).Status(); !st.OK() || res != "v:y" {
						vsched.Failf("a successful call (handler returned OK, result decoded) was reported as %s | sequence: %s", triple(st), hist)
					}
				case "handler_error":
					want = erpc.NewStatus(1234, "business error", "rejected: x")
					if st := cs.Call(hStatus, "x", &res).Status(); triple(st) != triple(want) {
						vsched.Failf("handler returned %s but the caller observed %s | sequence: %s", triple(want), triple(st), hist)
					}
				case "unknown_route":
					if st := cs.Call("/no/such", "x", &res).Status(); st.Code() != 404 {
						vsched.Failf("unknown route reported as %s | sequence: %s", triple(st), hist)
					}
				case "bad_arg":
					if st := cs.Call(hInt, "nan", &res).Status(); st.Code() != 400 {
						vsched.Failf("undecodable argument reported as %s | sequence: %s", triple(st), hist)
					}
				case "result_mismatch":
					want = nil
					var ires int
					if st := cs.Call(hStatus, "x", &ires).Status(); st.OK() {
						vsched.Failf("undecodable reply body reported as OK | sequence: %s", hist)
					}
				}
				vsched.Quiesce()
			}
			vsched.Logf("seq %s", hist)
		case "cause":
			causes := []string{"ok", "unknown_route", "bad_arg", "panic", "closed", "result_mismatch", "veto_postreadcallheader", "veto_prereadcallbody", "veto_postreadcallbody", "veto_prewritecall_client", "empty_result"}
			c := causes[vsched.Choose(len(causes), "cause")]
			var st *erpc.Status
			var res string
			wantCode, wantMsg := int32(0), ""
			wantRan := 1
			switch c {
			case "ok":
				st = cs.Call(hStatus, "x", &res).Status()
				if st.OK() && res != "v:x" {
					vsched.Failf("OK but result %q", res)
				}
			case "unknown_route":
				st = cs.Call("/no/such/route", "x", &res).Status()
				wantCode, wantMsg, wantRan = 404, "Not Found", 0
			case "bad_arg":
				st = cs.Call(hInt, "not-an-int", &res).Status()
				wantCode, wantMsg, wantRan = 400, "Bad Message", 0
			case "panic":
				st = cs.Call(hStatus, "panic", &res).Status()
				wantCode, wantMsg = 500, "Internal Server Error"
			case "closed":
				ss.Close()
				vsched.Quiesce()
				st = cs.Call(hStatus, "x", &res).Status()
				wantCode, wantMsg, wantRan = 102, "Connection Closed", 0
			case "result_mismatch":
				// the handler succeeds but its reply body cannot be decoded into the caller's result type
				var ires int
				st = cs.Call(hStatus, "x", &ires).Status()
				if st.OK() {
					vsched.Failf("caller observed OK although the reply body %q could not be decoded into its result type (*int, got %d)", "v:x", ires)
				}
				wantCode, wantMsg = st.Code(), st.Msg()
			case "empty_result":
				want = nil
				st = cs.Call(hInt, 5, nil).Status()
			case "veto_postreadcallheader", "veto_prereadcallbody", "veto_postreadcallbody":
				stage := c[len("veto_"):]
				rec.Veto[stage] = erpc.NewStatus(1234, "vetoed", "by plugin")
				st = cs.Call(hStatus, "x", &res).Status()
				wantCode, wantMsg, wantRan = 1234, "vetoed", 0
			case "veto_prewritecall_client":
				crec := NewRec("crec", nil)
				crec.Veto["prewritecall"] = erpc.NewStatus(1235, "client veto", "")
				cli.PluginContainer().AppendRight(crec)
				st = cs.Call(hStatus, "x", &res).Status()
				wantCode, wantMsg, wantRan = 1235, "client veto", 0
			}
			if st.Code() != wantCode || (wantCode != 0 && st.Msg() != wantMsg) {
				vsched.Failf("cause %s: caller observed %s, want code %d msg %q (proto %s)", c, triple(st), wantCode, wantMsg, proto)
			}
			if ran != wantRan {
				vsched.Failf("cause %s: handler ran %d times, want %d", c, ran, wantRan)
			}
			vsched.Logf("cause=%s st=%d", c, st.Code())
		}
	}
}
