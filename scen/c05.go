package scen

import (
	"bytes"
	"fmt"
	"io"
	"math"
	"strings"
	"unicode/utf8"

	erpc "github.com/henrylee2cn/erpc/v6"
	"github.com/henrylee2cn/erpc/v6/mixer/websocket/jsonSubProto"
	"github.com/henrylee2cn/erpc/v6/mixer/websocket/pbSubProto"
	"github.com/henrylee2cn/erpc/v6/socket"

	"verif/world"
)

func init() {
	Enum["c05_roundtrip"] = c05Roundtrip
	Enum["c05_stream"] = c05Stream
	Enum["c04_frames"] = c04Frames
}

// model of a message (the reference the round trip is compared against)
type mmsg struct {
	Seq    int32
	Mtype  byte
	Method string
	Stat   [3]string // code, msg, cause ("" code = no status)
	Meta   [][2]string
	Codec  byte
	Body   []byte
	Pipe   []byte
}

func (m mmsg) String() string {
	b := m.Body
	if len(b) > 40 {
		b = append(append([]byte{}, b[:40]...), []byte(fmt.Sprintf("...(%d)", len(m.Body)))...)
	}
	me := m.Method
	if len(me) > 40 {
		me = me[:40] + fmt.Sprintf("...(%d)", len(m.Method))
	}
	return fmt.Sprintf("{seq=%d t=%d m=%q st=%q meta=%q c=%d body=%q pipe=%q}", m.Seq, m.Mtype, me, m.Stat, m.Meta, m.Codec, b, m.Pipe)
}

type memRW struct {
	r io.Reader
	w bytes.Buffer
}

func (m *memRW) Read(p []byte) (int, error)  { return m.r.Read(p) }
func (m *memRW) Write(p []byte) (int, error) { return m.w.Write(p) }

type chunkReader struct {
	b     []byte
	sizes []int // successive read sizes; last one repeats
	i     int
}

func (c *chunkReader) Read(p []byte) (int, error) {
	if len(c.b) == 0 {
		return 0, io.EOF
	}
	n := len(p)
	k := c.sizes[len(c.sizes)-1]
	if c.i < len(c.sizes) {
		k = c.sizes[c.i]
	}
	c.i++
	if k > 0 && n > k {
		n = k
	}
	if n > len(c.b) {
		n = len(c.b)
	}
	copy(p, c.b[:n])
	c.b = c.b[n:]
	return n, nil
}

type protoSpec struct {
	name      string
	pf        erpc.ProtoFunc
	noStatus  bool // the frame format has no status field (gap recorded under C04)
	noPipe    bool
	msgFramed bool // frame boundaries come from the transport (one websocket message = one frame)
	// narrower documented field sets (nil: the message model as is)
	adapt      func(mmsg) mmsg         // renames a model message into the protocol's field set
	norm       func(mmsg) (mmsg, bool) // the expectation for a message, false when outside the supported set
	structBody bool                    // the body is a thrift struct
}

func protoSpecs() []protoSpec {
	return []protoSpec{
		{name: "raw", pf: world.Proto("raw")},
		{name: "json", pf: world.Proto("json")},
		{name: "pb", pf: world.Proto("pb")},
		{name: "thrift", pf: world.Proto("thrift")},
		{name: "wsjson", pf: jsonSubProto.NewJSONSubProtoFunc(), msgFramed: true},
		{name: "wspb", pf: pbSubProto.NewPbSubProtoFunc(), noStatus: true, msgFramed: true},
	}
}

// allSpecs: the six general protocols plus the two with a narrower field set.
func allSpecs() []protoSpec { return append(protoSpecs(), extraSpecs()...) }

// buildFor is build with the protocol's body representation.
func buildFor(spec protoSpec, m mmsg) socket.Message {
	msg := build(m)
	if spec.structBody {
		msg.SetBody(&tsBody{Data: m.Body})
	}
	return msg
}

// newIn returns an empty message prepared for receiving through spec.
func newInSetting(spec protoSpec) socket.MessageSetting {
	if spec.structBody {
		return socket.WithNewBody(func(socket.Header) interface{} { return new(tsBody) })
	}
	return socket.WithNewBody(func(socket.Header) interface{} { return new([]byte) })
}

// expectFor is what unpacking m through spec must yield, or false when m is outside the protocol's field set.
func expectFor(spec protoSpec, m mmsg) (mmsg, bool) {
	if !inDomain(spec, m) {
		return m, false
	}
	e := expectOf(m)
	if spec.norm != nil {
		return spec.norm(e)
	}
	return e, true
}

// extractFor reads a received message back into the model.
func extractFor(spec protoSpec, msg socket.Message) mmsg {
	o := extract(msg)
	if spec.name == "http" {
		o = httpStrip(o)
	}
	return o
}

func specByName(n string) protoSpec {
	for _, s := range allSpecs() {
		if s.name == n {
			return s
		}
	}
	panic("unknown proto " + n)
}

func build(m mmsg) socket.Message {
	msg := socket.NewMessage()
	msg.SetSeq(m.Seq)
	msg.SetMtype(m.Mtype)
	msg.SetServiceMethod(m.Method)
	if m.Stat[0] != "" {
		var code int32
		fmt.Sscanf(m.Stat[0], "%d", &code)
		msg.SetStatus(erpc.NewStatus(code, m.Stat[1], m.Stat[2]))
	}
	for _, kv := range m.Meta {
		msg.Meta().Add(kv[0], kv[1])
	}
	msg.SetBodyCodec(m.Codec)
	if m.Body != nil {
		msg.SetBody(m.Body)
	}
	if len(m.Pipe) > 0 {
		if err := msg.XferPipe().Append(m.Pipe...); err != nil {
			panic(err)
		}
	}
	return msg
}

func extract(msg socket.Message) mmsg {
	var o mmsg
	o.Seq, o.Mtype, o.Method, o.Codec = msg.Seq(), msg.Mtype(), msg.ServiceMethod(), msg.BodyCodec()
	if st := msg.Status(); st != nil && !st.OK() {
		c := ""
		if e := st.Cause(); e != nil {
			c = e.Error()
		}
		o.Stat = [3]string{fmt.Sprint(st.Code()), st.Msg(), c}
	}
	msg.Meta().VisitAll(func(k, v []byte) { o.Meta = append(o.Meta, [2]string{string(k), string(v)}) })
	if b, ok := msg.Body().(*[]byte); ok && b != nil {
		o.Body = append([]byte{}, (*b)...)
	}
	if b, ok := msg.Body().(*tsBody); ok && b != nil {
		o.Body = append([]byte{}, b.Data...)
	}
	o.Pipe = append([]byte{}, msg.XferPipe().IDs()...)
	return o
}

func expectOf(m mmsg) mmsg {
	e := m
	if e.Stat[0] != "" {
		// the reference is what the sender's own status object reports through its getters
		e.Stat = extract(build(mmsg{Stat: m.Stat})).Stat
	}
	if e.Body == nil {
		e.Body = []byte{}
	}
	if e.Pipe == nil {
		e.Pipe = []byte{}
	}
	return e
}

func sameMsg(a, b mmsg) string {
	if a.Seq != b.Seq {
		return fmt.Sprintf("seq %d != %d", a.Seq, b.Seq)
	}
	if a.Mtype != b.Mtype {
		return fmt.Sprintf("mtype %d != %d", a.Mtype, b.Mtype)
	}
	if a.Method != b.Method {
		return fmt.Sprintf("service method %q != %q", a.Method, b.Method)
	}
	if a.Stat != b.Stat {
		return fmt.Sprintf("status %q != %q", a.Stat, b.Stat)
	}
	if fmt.Sprintf("%q", a.Meta) != fmt.Sprintf("%q", b.Meta) {
		return fmt.Sprintf("metadata %q != %q", a.Meta, b.Meta)
	}
	if a.Codec != b.Codec {
		return fmt.Sprintf("body codec %d != %d", a.Codec, b.Codec)
	}
	if !bytes.Equal(a.Body, b.Body) {
		return fmt.Sprintf("body %q != %q", trunc(a.Body), trunc(b.Body))
	}
	if !bytes.Equal(a.Pipe, b.Pipe) {
		return fmt.Sprintf("xfer pipe %q != %q", a.Pipe, b.Pipe)
	}
	return ""
}

func trunc(b []byte) []byte {
	if len(b) > 48 {
		return b[:48]
	}
	return b
}

// roundtrip packs m with a fresh protocol instance and unpacks it again.
func roundtrip(spec protoSpec, m mmsg) (out mmsg, wire []byte, err error, panicked interface{}) {
	defer func() {
		if r := recover(); r != nil {
			panicked = r
		}
	}()
	rw := &memRW{}
	p := spec.pf(rw)
	if err = p.Pack(buildFor(spec, m)); err != nil {
		return out, nil, fmt.Errorf("pack: %v", err), nil
	}
	wire = append([]byte{}, rw.w.Bytes()...)
	rw2 := &memRW{r: bytes.NewReader(wire)}
	p2 := spec.pf(rw2)
	in := socket.NewMessage(newInSetting(spec))
	if err = p2.Unpack(in); err != nil {
		return out, wire, fmt.Errorf("unpack: %v", err), nil
	}
	return extractFor(spec, in), wire, nil, nil
}

var c05Seqs = []int32{1, 0, -1, 35, 36, math.MaxInt32, math.MinInt32}
var c05Types = []byte{1, 2, 3}
var c05MetaAtoms = []string{"", "a", "=", "&", "%", "+", " ", "\x00", "\xff", "é"}

func c05Methods() []string {
	return []string{"/a", "", strings.Repeat("m", 255), `/q"x`, `/b\y`, "/s p", "/\xff\x00", "/é"}
}

func c05Stats() [][3]string {
	return [][3]string{{"", "", ""}, {"1", "a", "b"}, {"-1", "&=%", "+ \""}, {fmt.Sprint(math.MaxInt32), "é\\", "\x00\xff"}, {fmt.Sprint(math.MinInt32), "", ""}, {"400", strings.Repeat("x", 300), ""}}
}

func c05Metas(full bool) [][][2]string {
	out := [][][2]string{nil}
	atoms := c05MetaAtoms
	var pairs [][2]string
	for _, k := range atoms {
		for _, v := range atoms {
			pairs = append(pairs, [2]string{k, v})
		}
	}
	for _, p := range pairs {
		out = append(out, [][2]string{p})
	}
	if full {
		for _, p := range pairs {
			for _, q := range pairs {
				out = append(out, [][2]string{p, q})
			}
		}
	} else {
		// pairs of pairs over a reduced atom set, duplicate keys included
		small := []string{"", "a", "&", "\xff"}
		for _, k1 := range small {
			for _, v1 := range small {
				for _, k2 := range small {
					for _, v2 := range small {
						out = append(out, [][2]string{{k1, v1}, {k2, v2}})
					}
				}
			}
		}
	}
	return out
}

func c05Bodies() [][]byte {
	out := [][]byte{nil, {}}
	for i := 0; i < 256; i++ {
		out = append(out, []byte{byte(i)})
	}
	out = append(out, []byte(`"`), []byte(`\`), []byte(`\"`), []byte(`"\`), []byte(`{"a":"he said \"hi\"\n"}`), []byte("a\nb\tc\r"), []byte("\xff\xfe\x00"), []byte(`A`), []byte(`\n`))
	big := make([]byte, 64<<10)
	x := uint32(12345)
	for i := range big {
		x = x*1664525 + 1013904223
		big[i] = byte(x >> 24)
	}
	out = append(out, big)
	return out
}

var c05Pipes = [][]byte{nil, {'g'}, {'m'}, {'g', 'm'}, {'m', 'm'}}

// applyLimits tells whether m is inside the protocol's documented limits/supported field set.
func inDomain(spec protoSpec, m mmsg) bool {
	if spec.noPipe && len(m.Pipe) > 0 {
		return false
	}
	if spec.noStatus && m.Stat[0] != "" {
		return false
	}
	if (spec.name == "pb" || spec.name == "wspb") && !utf8.ValidString(m.Method) {
		return false // the service method is a proto3 string field: invalid UTF-8 is refused with an error by Pack
	}
	return true
}

func c05Check(c *EnumCtx, spec protoSpec, m mmsg, class string) {
	if spec.adapt != nil {
		m = spec.adapt(m)
	}
	want, ok := expectFor(spec, m)
	if !ok {
		return
	}
	if !c.Mine() {
		return
	}
	out, _, err, pan := roundtrip(spec, m)
	c.Case(spec.name+"/"+class, spec.name+" "+m.String())
	c.Count("msgs_" + spec.name)
	if pan != nil {
		c.Fail(fmt.Sprintf("%s: round trip panics (%s)", spec.name, class), m.String(), fmt.Sprint(pan))
		return
	}
	if err != nil {
		c.Fail(fmt.Sprintf("%s: round trip fails (%s): %s", spec.name, class, errClass(err)), m.String(), err.Error())
		return
	}
	if d := sameMsg(want, out); d != "" {
		if k := httpStatusClass(want, out); spec.name == "http" && k != "" {
			out.Stat = want.Stat
			if sameMsg(want, out) == "" {
				c.Fail(k, m.String(), d)
				return
			}
		}
		c.Fail(fmt.Sprintf("%s: round trip changes the message (%s): %s", spec.name, class, fieldOf(d)), m.String(), d)
	}
}

func errClass(err error) string {
	s := err.Error()
	if len(s) > 60 {
		s = s[:60]
	}
	return s
}

func fieldOf(d string) string {
	if i := strings.IndexByte(d, ' '); i > 0 {
		return d[:i]
	}
	return d
}

// c05Roundtrip: one-factor-at-a-time over the full alphabets + full product of reduced alphabets.
func c05Roundtrip(c *EnumCtx) {
	begin()
	full := c.P.Get("alphabet", "quick") == "full"
	base := mmsg{Seq: 7, Mtype: 1, Method: "/a", Codec: 'j', Body: []byte(`{"x":1}`)}
	for _, spec := range allSpecs() {
		if only := c.P.Get("proto", ""); only != "" && only != spec.name {
			continue
		}
		for _, s := range c05Seqs {
			m := base
			m.Seq = s
			c05Check(c, spec, m, "seq")
		}
		for _, t := range c05Types {
			m := base
			m.Mtype = t
			c05Check(c, spec, m, "type")
		}
		for _, me := range c05Methods() {
			m := base
			m.Method = me
			cl := "method"
			if !utf8.ValidString(me) || strings.ContainsRune(me, 0) {
				cl = "method-nonutf8"
			}
			c05Check(c, spec, m, cl)
		}
		for _, st := range c05Stats() {
			m := base
			m.Mtype = 2
			m.Stat = st
			c05Check(c, spec, m, "status")
		}
		for _, me := range c05Metas(full) {
			m := base
			m.Meta = me
			cl := "meta"
			for _, kv := range me {
				if kv[0] == "" && kv[1] == "" {
					cl = "meta-emptypair"
				}
			}
			c05Check(c, spec, m, cl)
		}
		if spec.name == "http" {
			// metadata that are HTTP header fields (canonical keys): requests and replies, with and without a non-OK status
			for _, me := range [][][2]string{{{"X-A", "1"}}, {{"Rk", "rv"}}, {{"X-B", "2"}, {"X-A", "1"}}, {{"X-Empty", ""}}, {{"Authorization", "Bearer+abc/=="}}, {{"X-A", "a:b"}, {"Cookie", "k=v;k2=v2"}}} {
				for _, t := range []byte{1, 2} {
					m := base
					m.Mtype = t
					m.Meta = me
					c05Check(c, spec, m, "meta-header")
					if t == 2 {
						m.Stat = [3]string{"500", "m", "c"}
						c05Check(c, spec, m, "meta-header")
					}
				}
			}
			for _, me := range []string{"/a/b", "/a_b/c-d.e", "/", "/A/1"} {
				m := base
				m.Method = me
				c05Check(c, spec, m, "method")
			}
		}
		for _, cd := range []byte{'j', 0, 'p', 's', 'f', 'x', 't'} { // every registered codec id and 0
			m := base
			m.Codec = cd
			c05Check(c, spec, m, "codec")
		}
		for _, b := range c05Bodies() {
			m := base
			m.Body = b
			c05Check(c, spec, m, "body")
		}
		for _, pp := range c05Pipes {
			m := base
			m.Pipe = pp
			c05Check(c, spec, m, "pipe")
		}
		// boundary lengths of method/status/meta individually
		for _, n := range []int{0, 1, 255, 256, 65535, 65536} {
			m := base
			m.Method = strings.Repeat("m", n)
			if n <= 255 || spec.name != "raw" { // raw documents a 255 byte limit for the service method
				c05Check(c, spec, m, "len-method")
			}
			m = base
			m.Mtype = 2
			m.Stat = [3]string{"5", strings.Repeat("s", n), ""}
			if n+10 <= 65535 || spec.name != "raw" {
				c05Check(c, spec, m, "len-status")
			}
			m = base
			m.Meta = [][2]string{{"k", strings.Repeat("v", n)}}
			if n+2 <= 65535 || spec.name != "raw" {
				c05Check(c, spec, m, "len-meta")
			}
		}
		// product of reduced alphabets
		seqs := []int32{1, -1, math.MaxInt32}
		meths := []string{"/a", `/q"\x`, ""}
		stats := [][3]string{{"", "", ""}, {"-1", "&=%", "+ \""}}
		metas := [][][2]string{nil, {{"a", "b"}}, {{"k", "1"}, {"k", "2"}}, {{"&", "="}, {"%", "+"}}}
		bodies := [][]byte{nil, []byte(`{"a":"\"q\""}`), {0, 255, '"', '\\'}}
		for _, s := range seqs {
			for _, t := range c05Types {
				for _, me := range meths {
					for _, st := range stats {
						for _, mt := range metas {
							for _, cd := range []byte{'j', 0} {
								for _, b := range bodies {
									for _, pp := range c05Pipes[:4] {
										c05Check(c, spec, mmsg{Seq: s, Mtype: t, Method: me, Stat: st, Meta: mt, Codec: cd, Body: b, Pipe: pp}, "product")
									}
								}
							}
						}
					}
				}
			}
		}
	}
}

// c05Stream: back-to-back frames through a chunking reader; size stability.
func c05Stream(c *EnumCtx) {
	begin()
	maxFrames := c.P.Int("frames", 2)
	alphabet0 := []mmsg{
		{Seq: 1, Mtype: 1, Method: "/a", Codec: 'j', Body: []byte(`{"x":1}`)},
		{Seq: 2, Mtype: 2, Method: "/a", Stat: [3]string{"500", "m", "c"}},
		{Seq: 3, Mtype: 3, Method: "/p", Meta: [][2]string{{"k", "v"}, {"k", "w"}}, Codec: 'j', Body: []byte(`"s"`)},
		{Seq: 7, Mtype: 1, Method: "/e", Meta: [][2]string{{"debug", ""}, {"k", "x"}, {"dry", ""}}, Codec: 'j', Body: []byte(`1`)},
		{Seq: -4, Mtype: 1, Method: "/g", Codec: 'j', Body: bytes.Repeat([]byte("z"), 300), Pipe: []byte{'g'}},
		{Seq: 5, Mtype: 2, Method: "", Codec: 0, Body: nil},
		{Seq: 6, Mtype: 1, Method: "/m", Codec: 'p', Body: []byte{0, 1, 2, 255}, Pipe: []byte{'m'}},
	}
	alphabet := alphabet0
	for _, spec := range allSpecs() {
		if only := c.P.Get("proto", ""); only != "" && only != spec.name {
			continue
		}
		if spec.msgFramed {
			continue
		}
		alphabet := alphabet
		if spec.adapt != nil {
			alphabet = nil
			for _, m := range alphabet0 {
				alphabet = append(alphabet, spec.adapt(m))
			}
		}
		var seqs [][]int
		var gen func(cur []int)
		gen = func(cur []int) {
			if len(cur) > 0 {
				seqs = append(seqs, append([]int{}, cur...))
			}
			if len(cur) == maxFrames {
				return
			}
			for i := range alphabet {
				gen(append(cur, i))
			}
		}
		gen(nil)
		for _, sq := range seqs {
			ok := true
			for _, i := range sq {
				if _, in := expectFor(spec, alphabet[i]); !in {
					ok = false
				}
			}
			if !ok {
				continue
			}
			if !c.Mine() {
				continue
			}
			c05StreamCase(c, spec, alphabet, sq)
		}
	}
}

func c05StreamCase(c *EnumCtx, spec protoSpec, alphabet []mmsg, sq []int) {
	name := fmt.Sprintf("%s frames=%v", spec.name, sq)
	defer func() {
		if r := recover(); r != nil {
			c.Fail(spec.name+": stream decode panics", name, fmt.Sprint(r))
		}
	}()
	want := func(i int) mmsg { e, _ := expectFor(spec, alphabet[i]); return e }
	// one protocol instance packs all frames (connection lifetime)
	rw := &memRW{}
	p := spec.pf(rw)
	var sizesPacked []uint32
	for _, i := range sq {
		m := buildFor(spec, alphabet[i])
		if err := p.Pack(m); err != nil {
			c.Fail(spec.name+": pack fails in stream", name, err.Error())
			return
		}
		sizesPacked = append(sizesPacked, m.Size())
	}
	stream := append([]byte{}, rw.w.Bytes()...)
	// size of each frame decoded alone
	alone := map[int]uint32{}
	for _, i := range sq {
		if _, ok := alone[i]; ok {
			continue
		}
		rwa := &memRW{}
		pa := spec.pf(rwa)
		pa.Pack(buildFor(spec, alphabet[i]))
		rwb := &memRW{r: bytes.NewReader(rwa.w.Bytes())}
		in := socket.NewMessage(newInSetting(spec))
		if err := spec.pf(rwb).Unpack(in); err != nil {
			c.Fail(spec.name+": unpack of a single frame fails", name, err.Error())
			return
		}
		alone[i] = in.Size()
	}
	decode := func(sizes []int, what string) {
		rd := &memRW{r: &chunkReader{b: stream, sizes: sizes}}
		// the socket layer puts a bufio.Reader in front of the protocol; both paths are legal
		pr := spec.pf(rd)
		var kept []socket.Message
		defer func() {
			// messages decoded earlier must still hold their own data after later frames were decoded
			for k, in := range kept {
				if d := sameMsg(want(sq[k]), extractFor(spec, in)); d != "" {
					c.Fail(spec.name+": a decoded message changed while later frames were decoded ("+what+"): "+fieldOf(d), fmt.Sprintf("%s chunks=%v frame#%d", name, sizes, k), d)
					return
				}
			}
		}()
		for k, i := range sq {
			in := socket.NewMessage(newInSetting(spec))
			kept = append(kept, in)
			if err := pr.Unpack(in); err != nil {
				c.Fail(spec.name+": stream loses frame sync ("+what+")", fmt.Sprintf("%s chunks=%v frame#%d", name, sizes, k), err.Error())
				return
			}
			if d := sameMsg(want(i), extractFor(spec, in)); d != "" {
				c.Fail(spec.name+": stream decodes a different frame ("+what+"): "+fieldOf(d), fmt.Sprintf("%s chunks=%v frame#%d", name, sizes, k), d)
				return
			}
			if in.Size() != alone[i] {
				c.Fail(spec.name+": reported size depends on preceding traffic", fmt.Sprintf("%s frame#%d", name, k), fmt.Sprintf("size %d after %d earlier frames, %d when decoded alone", in.Size(), k, alone[i]))
				return
			}
		}
		c.Evaluations++
	}
	decode([]int{0}, "unchunked")
	// the receiver may reuse one message object for every frame (Reset in between), as the session layer does
	func() {
		pr := spec.pf(&memRW{r: bytes.NewReader(stream)})
		in := socket.NewMessage()
		for k, i := range sq {
			in.Reset(newInSetting(spec))
			if err := pr.Unpack(in); err != nil {
				c.Fail(spec.name+": stream loses frame sync (reused message)", fmt.Sprintf("%s frame#%d", name, k), err.Error())
				return
			}
			if d := sameMsg(want(i), extractFor(spec, in)); d != "" {
				c.Fail(spec.name+": a frame decoded into a reused message differs from the frame sent: "+fieldOf(d), fmt.Sprintf("%s frame#%d", name, k), d)
				return
			}
		}
	}()
	n := len(stream)
	lim := n
	if lim > 400 {
		lim = 400
	}
	for k := 1; k <= lim; k++ {
		decode([]int{k}, "uniform chunks")
	}
	for s := 1; s < n && s < 400; s++ {
		decode([]int{s, 0}, "single split")
	}
	c.Case(spec.name+"/stream", name)
	c.Count("streams_" + spec.name)
}

// c04Frames: a REPLY carrying each status survives Pack -> Unpack on every protocol, including the websocket sub-protocols.
func c04Frames(c *EnumCtx) {
	begin()
	for _, spec := range allSpecs() {
		for _, code := range c04Codes {
			for _, msg := range c04Strs {
				for _, cause := range c04Strs {
					if !c.Mine() {
						continue
					}
					m := mmsg{Seq: 9, Mtype: 2, Method: "/a", Stat: [3]string{fmt.Sprint(code), msg, cause}}
					if spec.name == "http" {
						m.Codec = 'j'
					}
					if spec.adapt != nil {
						m = spec.adapt(m)
					}
					out, _, err, pan := roundtrip(spec, m)
					c.Case(spec.name+"/"+fmt.Sprint(code), spec.name+" "+m.String())
					if pan != nil || err != nil {
						c.Fail(spec.name+": reply frame with a status does not round-trip", m.String(), fmt.Sprint(pan, err))
						continue
					}
					if e := expectOf(m); out.Stat != e.Stat {
						if k := httpStatusClass(e, out); spec.name == "http" && k != "" {
							c.Fail(k, m.String(), fmt.Sprintf("sent %q, received %q", e.Stat, out.Stat))
							continue
						}
						c.Fail(spec.name+": the status of a reply frame is lost or altered on the wire", m.String(), fmt.Sprintf("sent %q, received %q", e.Stat, out.Stat))
					}
				}
			}
		}
	}
}
