package scen

import (
	"fmt"
	"math"
	"strings"

	erpc "github.com/henrylee2cn/erpc/v6"

	"verif/shim/vsched"
	"verif/world"
)

func init() {
	Sched["c09"] = c09
	Sched["c09_siblings"] = c09Siblings
	Sched["c09_caller"] = c09Caller
}

// c09Caller: calling-side stages, order and vetoes (a vetoing pre-write hook writes nothing).
func c09Caller(p Params) func() {
	return func() {
		begin()
		var trace []string
		a, b := NewRec("P1", &trace), NewRec("P2", &trace)
		srv := world.NewPeer("json")
		ran := 0
		hc := srv.RouteCallFunc(func(ctx erpc.CallCtx, arg *string) (*string, *erpc.Status) { ran++; r := "ok"; return &r, nil })
		hp := srv.RoutePushFunc(func(ctx erpc.PushCtx, arg *string) *erpc.Status { ran++; return nil })
		cli := world.NewPeer("json", a)
		cli.PluginContainer().AppendRight(b)
		cs, _, link := world.Connect(cli, srv, nil)
		kind := []string{"call", "push"}[vsched.Choose(2, "kind")]
		stages := []string{"prewritecall", "postwritecall", "postreadreplyheader", "prereadreplybody", "postreadreplybody"}
		if kind == "push" {
			stages = []string{"prewritepush", "postwritepush"}
		}
		type veto struct {
			r *Rec
			s string
		}
		vetoes := []veto{{}}
		for _, r := range []*Rec{a, b} {
			for _, s := range stages {
				if s != "postwritecall" && s != "postwritepush" {
					vetoes = append(vetoes, veto{r, s})
				}
			}
		}
		v := vetoes[vsched.Choose(len(vetoes), "veto")]
		if v.r != nil {
			v.r.Veto[v.s] = erpc.NewStatus(1400, "caller veto", "")
		}
		trace = nil
		before := len(link.A.Written)
		var st *erpc.Status
		var res string
		if kind == "call" {
			st = cs.Call(hc, "x", &res).Status()
		} else {
			st = cs.Push(hp, "x")
		}
		vsched.Quiesce()
		var want []string
		stopped := false
		for _, s := range stages {
			if stopped {
				break
			}
			for _, r := range []*Rec{a, b} {
				want = append(want, fmt.Sprintf("%s.%s#1", r.name, s))
				if r == v.r && s == v.s {
					stopped = true
					break
				}
			}
		}
		var got []string
		for _, t := range trace {
			if !strings.Contains(t, ".prereadheader#") {
				got = append(got, t)
			}
		}
		ctxt := fmt.Sprintf("kind=%s veto=%s", kind, v.s)
		if v.r != nil {
			ctxt += "@" + v.r.name
		}
		if strings.Join(got, " ") != strings.Join(want, " ") {
			vsched.Failf("calling-side hook trace differs from the documented order | %s\n got:  %v\n want: %v", ctxt, got, want)
		}
		wrote := len(link.A.Written) - before
		if v.s == "prewritecall" || v.s == "prewritepush" {
			if wrote != 0 {
				vsched.Failf("a pre-write hook vetoed but %d bytes were written | %s", wrote, ctxt)
			}
			if ran != 0 {
				vsched.Failf("handler ran although the pre-write hook vetoed | %s", ctxt)
			}
		}
		if v.r != nil && st.Code() != 1400 {
			vsched.Failf("caller got %s, not the vetoing hook's status | %s", world.StatStr(st), ctxt)
		}
		if v.r == nil && !st.OK() {
			vsched.Failf("operation failed without veto: %s | %s", world.StatStr(st), ctxt)
		}
		vsched.Logf("%s", ctxt)
	}
}

// c09Siblings: handlers registered next to each other keep their own plugin chains
// (derived containers must not share storage).
func c09Siblings(p Params) func() {
	return func() {
		begin()
		var trace []string
		n1 := 1 + vsched.Choose(4, "g1plugins")
		n2 := vsched.Choose(3, "g2plugins")
		nh := 1 + vsched.Choose(3, "handlers")
		srv := world.NewPeer("json")
		var g1p, g2p []erpc.Plugin
		var chain []string
		for i := 0; i < n1; i++ {
			r := NewRec(fmt.Sprintf("A%d", i), &trace)
			r.Only = map[string]bool{"postreadcallbody": true}
			g1p = append(g1p, r)
			chain = append(chain, r.name)
		}
		for i := 0; i < n2; i++ {
			r := NewRec(fmt.Sprintf("B%d", i), &trace)
			r.Only = map[string]bool{"postreadcallbody": true}
			g2p = append(g2p, r)
			chain = append(chain, r.name)
		}
		sub := srv.SubRoute("a", g1p...).SubRoute("b", g2p...)
		var names []string
		for i := 0; i < nh; i++ {
			r := NewRec(fmt.Sprintf("H%d", i), &trace)
			r.Only = map[string]bool{"postreadcallbody": true}
			i := i
			fn := func(ctx erpc.CallCtx, arg *string) (*string, *erpc.Status) {
				s := fmt.Sprint(i)
				return &s, nil
			}
			// distinct route names: register under per-handler sub groups without plugins
			names = append(names, sub.SubRoute(fmt.Sprintf("h%d", i)).RouteCallFunc(fn, r))
		}
		// a plugin appended to the global container afterwards makes every derived container rebuild its chain
		late := vsched.Choose(2, "late") == 1
		if late {
			r := NewRec("Late", &trace)
			r.Only = map[string]bool{"postreadcallbody": true}
			srv.PluginContainer().AppendRight(r)
		}
		cli := world.NewPeer("json")
		cs, _, _ := world.Connect(cli, srv, nil)
		for i, n := range names {
			trace = nil
			var res string
			if st := cs.Call(n, "x", &res).Status(); !st.OK() || res != fmt.Sprint(i) {
				vsched.Failf("call %s failed: %s %q", n, world.StatStr(st), res)
			}
			vsched.Quiesce()
			var want []string
			for _, c := range chain {
				want = append(want, c+".postreadcallbody#"+fmt.Sprint(i+1))
			}
			want = append(want, fmt.Sprintf("H%d.postreadcallbody#%d", i, i+1))
			if late {
				want = append(want, fmt.Sprintf("Late.postreadcallbody#%d", i+1))
			}
			if strings.Join(trace, " ") != strings.Join(want, " ") {
				vsched.Failf("handler %d of %d (groups with %d and %d plugins, late append %v) ran the hooks %v, its own chain is %v", i, nh, n1, n2, late, trace, want)
			}
		}
		vsched.Logf("%d %d %d", n1, n2, nh)
	}
}

var calleeCallStages = []string{"postreadcallheader", "prereadcallbody", "postreadcallbody", "HANDLER", "prewritereply", "postwritereply"}
var calleePushStages = []string{"postreadpushheader", "prereadpushbody", "postreadpushbody", "HANDLER"}

// stages that are run on the peer-global container only (the route is not known yet)
func globalOnly(stage string) bool {
	return stage == "postreadcallheader" || stage == "postreadpushheader" || stage == "prereadheader"
}

func vetoable(stage string) bool {
	switch stage {
	case "postreadcallheader", "prereadcallbody", "postreadcallbody", "postreadpushheader", "prereadpushbody", "postreadpushbody":
		return true
	}
	return false
}

// c09: hooks fire once, in stage and registration order, scoped to the matched route, and can veto.
func c09(p Params) func() {
	late := p.Get("late", "none") // none | left | right
	kind := p.Get("kind", "call")
	// result=bad: the handler of route 1 returns a value the body codec cannot encode, so the first attempt to write
	// the reply fails and the framework answers with an error reply instead (reply stages still at most once)
	badResult := p.Get("result", "") == "bad"
	return func() {
		begin()
		var trace []string
		mk := func(name string) *Rec { return NewRec(name, &trace) }
		nL := vsched.Choose(3, "nleft")
		nR := vsched.Choose(2, "nright")
		depth := vsched.Choose(3, "depth")
		gp := vsched.Choose(2, "groupplugins") == 1
		hp := vsched.Choose(2, "handlerplugin") == 1
		var left, right, groups, handlerP []*Rec
		var leftP []erpc.Plugin
		for i := 0; i < nL; i++ {
			r := mk(fmt.Sprintf("L%d", i+1))
			left = append(left, r)
			leftP = append(leftP, r)
		}
		srv := world.NewPeer("json", leftP...)
		for i := 0; i < nR; i++ {
			r := mk(fmt.Sprintf("R%d", i+1))
			right = append(right, r)
			srv.PluginContainer().AppendRight(r)
		}
		// route 1 under `depth` nested groups, route 2 at the root
		ran := map[string]int{}
		h1 := func(ctx erpc.CallCtx, arg *string) (*string, *erpc.Status) {
			ran["r1"]++
			trace = append(trace, fmt.Sprintf("HANDLER#%d", ctx.Seq()))
			r := "r1"
			return &r, nil
		}
		p1 := func(ctx erpc.PushCtx, arg *string) *erpc.Status {
			ran["r1"]++
			trace = append(trace, fmt.Sprintf("HANDLER#%d", ctx.Seq()))
			return nil
		}
		h2 := func(ctx erpc.CallCtx, arg *string) (*string, *erpc.Status) {
			ran["r2"]++
			trace = append(trace, fmt.Sprintf("HANDLER#%d", ctx.Seq()))
			r := "r2"
			return &r, nil
		}
		sub := srv.SubRoute("")
		for d := 0; d < depth; d++ {
			if gp {
				g := mk(fmt.Sprintf("G%d", d+1))
				groups = append(groups, g)
				sub = sub.SubRoute(fmt.Sprintf("g%d", d+1), g)
			} else {
				sub = sub.SubRoute(fmt.Sprintf("g%d", d+1))
			}
		}
		var hplug []erpc.Plugin
		if hp {
			r := mk("H")
			handlerP = append(handlerP, r)
			hplug = append(hplug, r)
		}
		h1bad := func(ctx erpc.CallCtx, arg *string) (*float64, *erpc.Status) {
			ran["r1"]++
			trace = append(trace, fmt.Sprintf("HANDLER#%d", ctx.Seq()))
			r := math.NaN()
			return &r, nil
		}
		var name1 string
		if kind == "push" {
			name1 = sub.RoutePushFunc(p1, hplug...)
		} else if badResult {
			name1 = sub.RouteCallFunc(h1bad, hplug...)
		} else {
			name1 = sub.RouteCallFunc(h1, hplug...)
		}
		name2 := srv.RouteCallFunc(h2)
		// plugins appended to the global container after the routes were registered
		switch late {
		case "left":
			r := mk("LateL")
			srv.PluginContainer().AppendLeft(r)
			left = append([]*Rec{r}, left...)
		case "right":
			r := mk("LateR")
			srv.PluginContainer().AppendRight(r)
			right = append(right, r)
		case "remove":
			// a global plugin is removed from the peer's container after the routes were registered:
			// from then on it sees no message, on any route
			if len(left) > 0 {
				if err := srv.PluginContainer().Remove(left[0].name); err != nil {
					vsched.Failf("Remove(%s): %v", left[0].name, err)
				}
				left = left[1:]
			} else if len(right) > 0 {
				if err := srv.PluginContainer().Remove(right[len(right)-1].name); err != nil {
					vsched.Failf("Remove(%s): %v", right[len(right)-1].name, err)
				}
				right = right[:len(right)-1]
			}
		}
		var chain1, chain2, global []*Rec
		chain1 = append(chain1, left...)
		chain1 = append(chain1, groups...)
		chain1 = append(chain1, handlerP...)
		chain1 = append(chain1, right...)
		chain2 = append(chain2, left...)
		chain2 = append(chain2, right...)
		global = chain2
		all := append(append([]*Rec{}, chain1...))
		// which plugin implements which stages: all, or exactly one
		stages := calleeCallStages
		if kind == "push" {
			stages = calleePushStages
		}
		var hookStages []string
		for _, s := range stages {
			if s != "HANDLER" {
				hookStages = append(hookStages, s)
			}
		}
		single := vsched.Choose(len(hookStages)+1, "onlystage")
		if single < len(hookStages) {
			for _, r := range all {
				r.Only = map[string]bool{hookStages[single]: true}
			}
		}
		// verdict: none, or one veto at (plugin, pre-handler stage)
		type veto struct {
			r     *Rec
			stage string
		}
		vetoes := []veto{{}}
		for _, r := range all {
			for _, s := range hookStages {
				if vetoable(s) && (r.Only == nil || r.Only[s]) {
					vetoes = append(vetoes, veto{r, s})
				}
			}
		}
		v := vetoes[vsched.Choose(len(vetoes), "veto")]
		if v.r != nil {
			v.r.Veto[v.stage] = erpc.NewStatus(1300, "veto by "+v.r.name+" at "+v.stage, "")
		}
		ctxt := fmt.Sprintf("kind=%s late=%s left=%d right=%d depth=%d groupplugins=%v handlerplugin=%v only=%d veto=%v", kind, late, nL, nR, depth, gp, hp, single, v.stage)
		if v.r != nil {
			ctxt += "@" + v.r.name
		}

		cli := world.NewPeer("json")
		cs, _, link := world.Connect(cli, srv, nil)
		trace = nil

		expect := func(chain []*Rec, seq int32) (want []string, vetoed bool) {
			for _, s := range stages {
				if s == "HANDLER" {
					want = append(want, fmt.Sprintf("HANDLER#%d", seq))
					continue
				}
				list := chain
				if globalOnly(s) {
					list = global
				}
				for _, r := range list {
					if r.Only != nil && !r.Only[s] {
						continue
					}
					want = append(want, fmt.Sprintf("%s.%s#%d", r.name, s, seq))
					if r == v.r && s == v.stage {
						// everything that precedes the handler is skipped after a veto; the reply stages still run for calls
						if kind == "call" {
							for _, rs := range []string{"prewritereply", "postwritereply"} {
								rl := chain
								if globalOnly(v.stage) {
									rl = global // the route was never matched: the reply is written with the global container
								}
								for _, rr := range rl {
									if rr.Only != nil && !rr.Only[rs] {
										continue
									}
									want = append(want, fmt.Sprintf("%s.%s#%d", rr.name, rs, seq))
								}
							}
						}
						return want, true
					}
				}
			}
			return want, false
		}
		filter := func(tr []string) []string {
			var out []string
			for _, t := range tr {
				if strings.Contains(t, ".prereadheader#") || strings.Contains(t, ".postaccept#") || strings.Contains(t, ".postdisconnect#") {
					continue
				}
				out = append(out, t)
			}
			return out
		}
		// request 1: route 1
		var res string
		var st *erpc.Status
		if kind == "push" {
			st = cs.Push(name1, "x")
		} else {
			st = cs.Call(name1, "x", &res).Status()
		}
		vsched.Quiesce()
		seq1 := int32(1)
		want, vetoed := expect(chain1, seq1)
		got := filter(trace)
		if badResult && !vetoed {
			// the reply could not be encoded: the post-write stage may be skipped, but no stage fires twice
			seen := map[string]bool{}
			for _, t := range got {
				if seen[t] {
					vsched.Failf("hook fired twice for one message: %s | %s result=bad\n got: %v", t, ctxt, got)
				}
				seen[t] = true
			}
			strip := func(tr []string) (out []string) {
				for _, t := range tr {
					if !strings.Contains(t, ".postwritereply#") {
						out = append(out, t)
					}
				}
				return
			}
			got, want = strip(got), strip(want)
		}
		if strings.Join(got, " ") != strings.Join(want, " ") {
			vsched.Failf("hook trace differs from the documented order for the route with plugins | %s\n got:  %v\n want: %v", ctxt, got, want)
		}
		if vetoed {
			if ran["r1"] != 0 {
				vsched.Failf("handler ran although a hook preceding it vetoed | %s", ctxt)
			}
			if kind == "call" && st.Code() != 1300 {
				vsched.Failf("caller got %s, not the vetoing hook's status | %s", world.StatStr(st), ctxt)
			}
		} else {
			if ran["r1"] != 1 {
				vsched.Failf("handler ran %d times | %s", ran["r1"], ctxt)
			}
			if kind == "call" && !badResult && (!st.OK() || res != "r1") {
				vsched.Failf("call failed without veto: %s | %s", world.StatStr(st), ctxt)
			}
			if badResult && (st.OK() || erpc.IsConnError(st)) {
				vsched.Failf("handler result cannot be encoded: caller got %s, want an error reply | %s", world.StatStr(st), ctxt)
			}
		}
		// request 2: the root route must only see the global plugins
		trace = nil
		st = cs.Call(name2, "y", &res).Status()
		vsched.Quiesce()
		v2 := v
		if v.r != nil {
			inGlobal := false
			for _, r := range global {
				if r == v.r {
					inGlobal = true
				}
			}
			if !inGlobal || kind == "push" {
				v = veto{} // the vetoing plugin is not on this route's chain (or vetoes a push stage)
			}
		}
		stages = calleeCallStages
		kind2 := kind
		kind = "call"
		if single < len(hookStages) && kind2 == "push" {
			// plugins implement one push stage only: nothing fires for a call
		}
		want, vetoed = expect(chain2, 2)
		kind = kind2
		v = v2
		got = filter(trace)
		if strings.Join(got, " ") != strings.Join(want, " ") {
			vsched.Failf("hook trace for the route without group/handler plugins differs (scoping) | %s\n got:  %v\n want: %v", ctxt, got, want)
		}
		if !vetoed && (!st.OK() || res != "r2") {
			vsched.Failf("second call failed: %s | %s", world.StatStr(st), ctxt)
		}
		_ = link
		vsched.Logf("%s", ctxt)
	}
}
