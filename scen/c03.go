package scen

import (
	"context"
	"fmt"
	"strings"
	"time"

	erpc "github.com/henrylee2cn/erpc/v6"

	"verif/shim/vnet"
	"verif/shim/vsched"
	"verif/world"
)

func init() {
	Sched["c03_frames"] = c03Frames
	Sched["c03_pair"] = c03Pair
	Sched["c03_slow"] = c03Slow
	Sched["c03_big"] = c03Big
	Sched["c03_deadline"] = c03Deadline
}

type c03srv struct {
	proto     string
	peer      erpc.Peer
	callRoute string
	pushRoute string
	calls     map[int32]int // invocations of the call handler per request seq
	pushes    map[int32]int
	unknownC  map[int32]int
	unknownP  map[int32]int
	gate      *world.Gate
	rec       *Rec
	trace     []string
}

type unmarshalable struct {
	C chan int `json:"c"`
}

func newC03srv(veto string, unknown bool) *c03srv {
	s := &c03srv{calls: map[int32]int{}, pushes: map[int32]int{}, unknownC: map[int32]int{}, unknownP: map[int32]int{}, gate: &world.Gate{}}
	s.rec = NewRec("rec", &s.trace)
	if veto != "" && veto != "none" {
		s.rec.Veto[veto] = erpc.NewStatus(1234, "vetoed", "")
	}
	s.peer = world.NewPeer("json", s.rec)
	s.callRoute = s.peer.RouteCallFunc(func(ctx erpc.CallCtx, arg *string) (interface{}, *erpc.Status) {
		s.calls[ctx.Seq()]++
		switch *arg {
		case "err":
			return nil, erpc.NewStatus(1000, "handler error", "because")
		case "panic":
			panic("handler panic")
		case "unmarsh":
			return &unmarshalable{C: make(chan int)}, nil
		case "block":
			s.gate.Wait()
		case "big":
			r := strings.Repeat("B", 3000) // larger than the message size limit of the c03_big scenario
			return &r, nil
		}
		r := "ok:" + *arg
		return &r, nil
	})
	s.pushRoute = s.peer.RoutePushFunc(func(ctx erpc.PushCtx, arg *string) *erpc.Status {
		s.pushes[ctx.Seq()]++
		if *arg == "panic" {
			panic("push handler panic")
		}
		if *arg == "block" {
			s.gate.Wait()
		}
		return nil
	})
	if unknown {
		s.peer.SetUnknownCall(func(ctx erpc.UnknownCallCtx) (interface{}, *erpc.Status) {
			s.unknownC[ctx.Seq()]++
			return "unknown", nil
		})
		s.peer.SetUnknownPush(func(ctx erpc.UnknownPushCtx) *erpc.Status {
			s.unknownP[ctx.Seq()]++
			return nil
		})
	}
	return s
}

// checkWire applies the C03 oracle to the frames the server wrote, for the frames the raw client sent.
func (s *c03srv) checkWire(sent []world.Frame, raw *vnet.Conn, ctxt string) {
	out, rest, err := world.DecodeFrames(s.proto, raw.Peer().Written)
	if err != nil || len(rest) != 0 {
		vsched.Failf("server wrote bytes that are not whole frames (err=%v, %d trailing bytes) | %s", err, len(rest), ctxt)
	}
	replies := map[int32]int{}
	for _, f := range out {
		if f.Mtype != erpc.TypeReply {
			vsched.Failf("server wrote an unsolicited frame of type %d | %s", f.Mtype, ctxt)
		}
		replies[f.Seq]++
	}
	closed := raw.PeerClosed()
	callSeqs := map[int32]int{}
	pushSeqs := map[int32]int{}
	for _, f := range sent {
		if f.Mtype == erpc.TypeCall {
			callSeqs[f.Seq]++
		}
		if f.Mtype == erpc.TypePush {
			pushSeqs[f.Seq]++
		}
	}
	for _, f := range sent {
		h := s.calls[f.Seq] + s.unknownC[f.Seq]
		ph := s.pushes[f.Seq] + s.unknownP[f.Seq]
		switch f.Mtype {
		case erpc.TypeCall:
			if h > callSeqs[f.Seq] {
				vsched.Failf("CALL seq %d was handled %d times | %s", f.Seq, h, ctxt)
			}
			if replies[f.Seq] > callSeqs[f.Seq] {
				vsched.Failf("CALL seq %d was answered %d times | %s", f.Seq, replies[f.Seq], ctxt)
			}
			if !closed && replies[f.Seq] != callSeqs[f.Seq] {
				vsched.Failf("CALL seq %d got %d replies on a connection that stayed up (silently dropped) | %s", f.Seq, replies[f.Seq], ctxt)
			}
		case erpc.TypePush:
			if ph > pushSeqs[f.Seq] {
				vsched.Failf("PUSH seq %d was handled %d times | %s", f.Seq, ph, ctxt)
			}
			if replies[f.Seq] > callSeqs[f.Seq] {
				vsched.Failf("PUSH seq %d was answered with a reply | %s", f.Seq, ctxt)
			}
		case erpc.TypeReply:
			if replies[f.Seq] > callSeqs[f.Seq] {
				vsched.Failf("a stray REPLY seq %d was answered | %s", f.Seq, ctxt)
			}
		default:
			if !closed {
				vsched.Failf("frame of unsupported type %d did not lead to disconnection | %s", f.Mtype, ctxt)
			}
			if h+ph > 0 {
				vsched.Failf("a handler ran for a frame of unsupported type %d | %s", f.Mtype, ctxt)
			}
		}
	}
	for seq, n := range replies {
		if callSeqs[seq] == 0 && n > 0 {
			vsched.Failf("server sent a reply with seq %d that answers no received call | %s", seq, ctxt)
		}
	}
}

var c03Types = []byte{1, 3, 2, 0, 4, 5, 6, 255}
var c03Bodies = []string{`"ret"`, `"err"`, `"panic"`, `"unmarsh"`, `{{{`, ``}
var c03Codecs = []byte{'j', 0, 'z'}
var c03Metas = []string{"", "k=v"}

func c03Frames(p Params) func() {
	veto := p.Get("veto", "none")
	unknown := p.Get("unknown", "0") == "1"
	proto := p.Get("proto", "raw")
	return func() {
		begin()
		s := newC03srv(veto, unknown)
		s.proto = proto
		raw, sc := vnet.Pipe(vnet.NewAddr(), vnet.NewAddr())
		if _, st := s.peer.ServeConn(sc, world.Proto(proto)); !st.OK() {
			vsched.Failf("ServeConn: %v", st)
		}
		routes := []string{s.callRoute, s.pushRoute, "/nope", ""}
		f := world.Frame{Seq: 7}
		f.Mtype = c03Types[vsched.Choose(len(c03Types), "type")]
		f.Method = routes[vsched.Choose(len(routes), "route")]
		f.Body = []byte(c03Bodies[vsched.Choose(len(c03Bodies), "body")])
		f.Codec = c03Codecs[vsched.Choose(len(c03Codecs), "codec")]
		f.Meta = c03Metas[vsched.Choose(len(c03Metas), "meta")]
		ctxt := f.String()
		wire, can := world.EncodeFrame(proto, f)
		if !can || (proto == "thrift" && (f.Mtype < 1 || f.Mtype > 3)) {
			// the protocol cannot carry this frame (http: CALL/REPLY only; thrift has no encoding for other types)
			world.Counter("not_representable")
			return
		}
		raw.Write(wire)
		vsched.Quiesce()
		sent := []world.Frame{f}
		if !raw.PeerClosed() {
			// the connection stayed up: a well-formed probe call must still be answered exactly once
			probe := world.Frame{Seq: 8, Mtype: erpc.TypeCall, Method: s.callRoute, Codec: 'j', Body: []byte(`"ret"`)}
			pw, _ := world.EncodeFrame(proto, probe)
			raw.Write(pw)
			vsched.Quiesce()
			sent = append(sent, probe)
			world.Counter("probed")
		} else {
			world.Counter("disconnected")
		}
		s.checkWire(sent, raw, ctxt)
		if veto != "none" && f.Mtype == erpc.TypeCall && s.calls[7] > 0 && vetoPrecedesHandler(veto) && f.Method == s.callRoute {
			vsched.Failf("handler ran although plugin vetoed at %s | %s", veto, ctxt)
		}
		vsched.Logf("t=%d closed=%v", f.Mtype, raw.PeerClosed())
		raw.Close()
		s.peer.Close()
		vsched.Quiesce()
		if l := vsched.Live(); l != 0 {
			vsched.Failf("%d goroutines still blocked after close: %s | %s", l, vsched.BlockedDesc(), ctxt)
		}
	}
}

func vetoPrecedesHandler(stage string) bool {
	switch stage {
	case "postreadcallheader", "prereadcallbody", "postreadcallbody":
		return true
	}
	return false
}

// c03Pair: two frames back to back (same or different seq) under all interleavings.
func c03Pair(p Params) func() {
	kinds := []string{"ret", "block", "err", "panic", "push"}
	proto := p.Get("proto", "raw")
	if proto == "http" {
		kinds = kinds[:4] // no PUSH in the HTTP-style protocol
	}
	return func() {
		begin()
		s := newC03srv("none", false)
		s.proto = proto
		raw, sc := vnet.Pipe(vnet.NewAddr(), vnet.NewAddr())
		if _, st := s.peer.ServeConn(sc, world.Proto(proto)); !st.OK() {
			vsched.Failf("ServeConn: %v", st)
		}
		mk := func(seq int32, kind string) world.Frame {
			if kind == "push" {
				return world.Frame{Seq: seq, Mtype: erpc.TypePush, Method: s.pushRoute, Codec: 'j', Body: []byte(`"x"`)}
			}
			return world.Frame{Seq: seq, Mtype: erpc.TypeCall, Method: s.callRoute, Codec: 'j', Body: []byte(fmt.Sprintf("%q", kind))}
		}
		k1 := kinds[vsched.Choose(len(kinds), "k1")]
		k2 := kinds[vsched.Choose(len(kinds), "k2")]
		seq2 := int32(7 + vsched.Choose(2, "sameseq"))
		f1, f2 := mk(7, k1), mk(seq2, k2)
		ctxt := f1.String() + " " + f2.String()
		b1, _ := world.EncodeFrame(proto, f1)
		b2, _ := world.EncodeFrame(proto, f2)
		both := append(b1, b2...)
		raw.Write(both)
		opener := world.Go("opener", func() { s.gate.Open() })
		vsched.Join(opener)
		vsched.Quiesce()
		s.checkWire([]world.Frame{f1, f2}, raw, ctxt)
		vsched.Logf("%s %s %d", k1, k2, seq2)
		raw.Close()
		s.peer.Close()
		vsched.Quiesce()
		if l := vsched.Live(); l != 0 {
			vsched.Failf("%d goroutines still blocked after close: %s | %s", l, vsched.BlockedDesc(), ctxt)
		}
	}
}

// c03Slow: a handler (of a PUSH or of a CALL) that stays blocked until the CALL received right behind it has been
// answered -- e.g. a handler that itself waits for something the remote caller only does after that answer. Every
// handler behaviour is in scope of the property ("slow" included): the CALL behind it must be handled and answered
// while the connection stays up. The gate is opened by the harness only once the system is quiescent.
func c03Slow(p Params) func() {
	proto := p.Get("proto", "raw")
	return func() {
		begin()
		s := newC03srv("none", false)
		s.proto = proto
		raw, sc := vnet.Pipe(vnet.NewAddr(), vnet.NewAddr())
		if _, st := s.peer.ServeConn(sc, world.Proto(proto)); !st.OK() {
			vsched.Failf("ServeConn: %v", st)
		}
		firstPush := vsched.Choose(2, "first_is_push") == 1
		if firstPush && proto == "http" {
			world.Counter("not_representable")
			return
		}
		second := []string{"ret", "err", "panic", "unmarsh"}[vsched.Choose(4, "second")]
		f1 := world.Frame{Seq: 7, Mtype: erpc.TypeCall, Method: s.callRoute, Codec: 'j', Body: []byte(`"block"`)}
		if firstPush {
			f1 = world.Frame{Seq: 7, Mtype: erpc.TypePush, Method: s.pushRoute, Codec: 'j', Body: []byte(`"block"`)}
		}
		f2 := world.Frame{Seq: 8, Mtype: erpc.TypeCall, Method: s.callRoute, Codec: 'j', Body: []byte(fmt.Sprintf("%q", second))}
		ctxt := f1.String() + " " + f2.String()
		b1, _ := world.EncodeFrame(proto, f1)
		b2, _ := world.EncodeFrame(proto, f2)
		raw.Write(append(b1, b2...))
		vsched.Quiesce()
		// the first handler is still blocked; the CALL behind it must have been handled and answered by now
		out, _, _ := world.DecodeFrames(proto, raw.Peer().Written)
		answered := 0
		for _, f := range out {
			if f.Mtype == erpc.TypeReply && f.Seq == 8 {
				answered++
			}
		}
		if answered != 1 || s.calls[8] != 1 {
			vsched.Failf("a CALL received behind a message whose handler is still running was handled %d times and answered %d times while the connection stayed up | %s", s.calls[8], answered, ctxt)
		}
		s.gate.Open()
		vsched.Quiesce()
		s.checkWire([]world.Frame{f1, f2}, raw, ctxt)
		vsched.Logf("%v %s", firstPush, second)
		raw.Close()
		s.peer.Close()
		vsched.Quiesce()
		if l := vsched.Live(); l != 0 {
			vsched.Failf("%d goroutines still blocked after close: %s | %s", l, vsched.BlockedDesc(), ctxt)
		}
	}
}

// c03Big: the peer runs with a small message size limit and a handler answers with more than that. The oversized
// reply cannot be sent; the CALL is still answered exactly once (with an error reply) or the connection is closed,
// and a following CALL is answered normally.
func c03Big(p Params) func() {
	proto := p.Get("proto", "raw")
	return func() {
		begin()
		erpc.SetReadLimit(1024)
		defer erpc.SetReadLimit(0)
		s := newC03srv("none", false)
		s.proto = proto
		raw, sc := vnet.Pipe(vnet.NewAddr(), vnet.NewAddr())
		if _, st := s.peer.ServeConn(sc, world.Proto(proto)); !st.OK() {
			vsched.Failf("ServeConn: %v", st)
		}
		order := vsched.Choose(2, "order")
		f1 := world.Frame{Seq: 7, Mtype: erpc.TypeCall, Method: s.callRoute, Codec: 'j', Body: []byte(`"big"`)}
		f2 := world.Frame{Seq: 8, Mtype: erpc.TypeCall, Method: s.callRoute, Codec: 'j', Body: []byte(`"ret"`)}
		if order == 1 {
			f1, f2 = f2, f1
		}
		ctxt := "limit=1024 " + f1.String() + " " + f2.String()
		b1, _ := world.EncodeFrame(proto, f1)
		b2, _ := world.EncodeFrame(proto, f2)
		raw.Write(b1)
		vsched.Quiesce()
		raw.Write(b2)
		vsched.Quiesce()
		erpc.SetReadLimit(0) // the harness decodes what the server wrote with the same protocol code: without the limit
		s.checkWire([]world.Frame{f1, f2}, raw, ctxt)
		vsched.Logf("%d", order)
		raw.Close()
		s.peer.Close()
		vsched.Quiesce()
		if l := vsched.Live(); l != 0 {
			vsched.Failf("%d goroutines still blocked after close: %s | %s", l, vsched.BlockedDesc(), ctxt)
		}
	}
}

// c03Deadline: messages with and without a context deadline alternate on one connection and the clock moves on
// in between; a CALL that arrives later is still answered exactly once (a deadline that belonged to an earlier
// message does not stay armed on the connection).
func c03Deadline(p Params) func() {
	depth := p.Int("depth", 4)
	return func() {
		begin()
		s := newC03srv("none", false)
		raw, sc := vnet.Pipe(vnet.NewAddr(), vnet.NewAddr())
		ss, st := s.peer.ServeConn(sc)
		if !st.OK() {
			vsched.Failf("ServeConn: %v", st)
		}
		var sent []world.Frame
		seq := int32(100)
		hist := ""
		for i := 0; i < depth; i++ {
			switch vsched.Choose(4, "op") {
			case 0:
				hist += "call "
				seq++
				f := world.Frame{Seq: seq, Mtype: erpc.TypeCall, Method: s.callRoute, Codec: 'j', Body: []byte(`"ret"`)}
				raw.Write(f.Bytes())
				sent = append(sent, f)
			case 1:
				// the server pushes with a deadline one hour ahead
				hist += "push_with_deadline "
				ctx, cancel := context.WithDeadline(context.Background(), vnet.Now().Add(time.Hour))
				ss.Push("/client/note", "x", erpc.WithContext(ctx))
				cancel()
			case 2:
				hist += "push "
				ss.Push("/client/note", "x")
			case 3:
				hist += "two_hours_pass "
				vnet.AdvanceClock(2 * time.Hour)
			}
			vsched.Quiesce()
		}
		// the server's pushes are unsolicited frames by design: judge the replies only
		out, _, _ := world.ParseFrames(raw.Peer().Written)
		replies := map[int32]int{}
		for _, f := range out {
			if f.Mtype == erpc.TypeReply {
				replies[f.Seq]++
			}
		}
		for _, f := range sent {
			if s.calls[f.Seq] != 1 {
				vsched.Failf("CALL seq %d was handled %d times | %s", f.Seq, s.calls[f.Seq], hist)
			}
			if replies[f.Seq] != 1 {
				vsched.Failf("CALL seq %d got %d replies on a connection that stayed up (session healthy=%v) | %s", f.Seq, replies[f.Seq], ss.Health(), hist)
			}
		}
		vsched.Logf("%s", hist)
	}
}
