package scen

import (
	"strings"

	erpc "github.com/henrylee2cn/erpc/v6"

	"verif/shim/vnet"
	"verif/shim/vsched"
	"verif/shim/vsync"
	"verif/world"
)

func init() { Sched["c08"] = c08 }

func evIndex(obs []string, name string) int {
	for i, o := range obs {
		if o == name {
			return i
		}
	}
	return -1
}

// c08: graceful close on peer A while calls are in flight.
//
//	dir=in   : B calls a handler on A (handler has `yields` internal steps); A closes concurrently
//	dir=out  : A calls a handler on B; A closes concurrently
//	dir=both : both at once
//	closer=session|peer
func c08(p Params) func() {
	dir := p.Get("dir", "in")
	closer := p.Get("closer", "session")
	yields := p.Int("yields", 1)
	proto := p.Get("proto", "raw")
	idle := p.Int("idle", 0)
	nested := p.Get("nested", "") // the handler on A itself calls ("call") or pushes to ("push") B before it returns
	return func() {
		begin()
		a := world.NewPeer("json")
		b := world.NewPeer("json")
		var nestedCmd erpc.CallCmd
		var nestedRes, hBName, hPBName string
		pushesAtB := 0
		hA := a.RouteCallFunc(func(ctx erpc.CallCtx, arg *string) (*string, *erpc.Status) {
			world.Event("hA_enter")
			for i := 0; i < yields; i++ {
				vsched.Yield()
			}
			switch nested {
			case "call":
				nestedCmd = ctx.Session().Call(hBName, "n", &nestedRes)
			case "push":
				ctx.Session().Push(hPBName, "p")
			case "closenotify":
				// the handler finishes its work only when it learns that its session is being closed
				ch := ctx.Session().CloseNotify()
				vsync.AwaitRecv(ch)
				<-ch
			}
			r := "A:" + *arg
			world.Event("hA_exit")
			return &r, nil
		})
		hB := b.RouteCallFunc(func(ctx erpc.CallCtx, arg *string) (*string, *erpc.Status) {
			r := "B:" + *arg
			return &r, nil
		})
		hBName = hB
		hPBName = b.RoutePushFunc(func(ctx erpc.PushCtx, arg *string) *erpc.Status {
			pushesAtB++
			return nil
		})
		sa, sb, link := world.Connect(a, b, world.Proto(proto))
		// further idle sessions of the closing peer (Peer.Close closes all of them concurrently)
		for i := 0; i < idle; i++ {
			_, sc := vnet.Pipe(vnet.NewAddr(), vnet.NewAddr())
			if _, st := a.ServeConn(sc, world.Proto(proto)); !st.OK() {
				vsched.Failf("ServeConn (idle session): %v", st)
			}
		}
		repliesOnWire := 0
		link.A.OnWrite = func(c *vnet.Conn, data []byte) {
			// a protocol may write one frame in several pieces: count the complete REPLY frames in everything written so far
			fs, _, _ := world.DecodeFrames(proto, append(append([]byte{}, c.Written...), data...))
			n := 0
			for _, f := range fs {
				if f.Mtype == erpc.TypeReply {
					n++
				}
			}
			for ; repliesOnWire < n; repliesOnWire++ {
				world.Event("A_reply_written")
			}
		}
		var ths []*vsched.Thread
		var inRes, outRes, out2Res string
		var inCmd, outCmd, out2Cmd erpc.CallCmd
		if dir == "in" || dir == "both" {
			ths = append(ths, world.Go("callerB", func() {
				inCmd = sb.Call(hA, "x", &inRes)
			}))
		}
		if dir == "out" || dir == "both" || dir == "out2" {
			ths = append(ths, world.Go("callerA", func() {
				outCmd = sa.Call(hB, "y", &outRes)
			}))
		}
		if dir == "out2" {
			// a second call of this side is pending at the same time
			ths = append(ths, world.Go("callerA2", func() {
				out2Cmd = sa.Call(hB, "z", &out2Res)
			}))
		}
		ths = append(ths, world.Go("closer", func() {
			world.Event("close_call")
			if closer == "peer" {
				a.Close()
			} else {
				sa.Close()
			}
			world.Event("close_ret")
		}))
		joinAll(ths)
		obs := append([]string(nil), vsched.X().Obs...)
		enter, exit := evIndex(obs, "hA_enter"), evIndex(obs, "hA_exit")
		cc, cr := evIndex(obs, "close_call"), evIndex(obs, "close_ret")
		rw := evIndex(obs, "A_reply_written")
		if inCmd != nil {
			st := inCmd.Status()
			if enter >= 0 && enter < cc {
				world.Counter("handler_entered_before_close")
				if !st.OK() || inRes != "A:x" {
					vsched.Failf("handler was entered before Close() was called, but its caller got %s result %q instead of the genuine reply | %s", world.StatStr(st), inRes, strings.Join(obs, ","))
				}
				if exit < 0 || cr < exit {
					vsched.Failf("Close() returned before the running handler finished | %s", strings.Join(obs, ","))
				}
				if rw < 0 || cr < rw {
					vsched.Failf("Close() returned before the running handler's reply was written | %s", strings.Join(obs, ","))
				}
			}
			if st.OK() && inRes != "A:x" {
				vsched.Failf("inbound call OK with wrong result %q", inRes)
			}
			vsched.Logf("in=%s", statClass(st))
		}
		checkOut := func(cmd erpc.CallCmd, res, arg string) {
			if cmd == nil {
				return
			}
			st := cmd.Status()
			// did this request reach the wire completely?
			sent := false
			frames, _, _ := world.DecodeFrames(proto, link.A.Written)
			for _, f := range frames {
				if f.Mtype == erpc.TypeCall && f.Seq == cmd.Output().Seq() {
					sent = true
				}
			}
			if sent {
				world.Counter("request_on_wire")
				if !st.OK() || res != "B:"+arg {
					vsched.Failf("call issued before closing was written to the wire and the peer replied, but the caller got a connection error or a wrong result | %s result %q, %s", world.StatStr(st), res, strings.Join(obs, ","))
				}
			} else if st.OK() {
				vsched.Failf("call reported OK although its request never reached the wire")
			}
			vsched.Logf("out=%s", statClass(st))
		}
		checkOut(outCmd, outRes, "y")
		checkOut(out2Cmd, out2Res, "z")
		// a call the running handler itself issued: if its request reached the wire, B's reply must come back
		checkOut(nestedCmd, nestedRes, "n")
		if pushesAtB > 1 {
			vsched.Failf("the handler's push was delivered %d times", pushesAtB)
		}
		if sa.Health() {
			vsched.Failf("session still healthy after Close() returned")
		}
		a.Close()
		b.Close()
		vsched.Quiesce()
		if l := vsched.Live(); l != 0 {
			vsched.Failf("%d goroutines still blocked after both peers were closed: %s", l, vsched.BlockedDesc())
		}
	}
}
