package scen

import (
	"fmt"
	"strings"

	erpc "github.com/henrylee2cn/erpc/v6"
	"github.com/henrylee2cn/erpc/v6/plugin/auth"

	"verif/shim/vnet"
	"verif/shim/vsched"
	"verif/world"
)

func init() { Sched["c16"] = c16 }

// c16: nothing runs on a connection whose authentication exchange has not completed successfully.
func c16(p Params) func() {
	proto := p.Get("proto", "raw")
	return func() {
		begin()
		var trace []string
		rec := NewRec("rec", &trace)
		checkerRuns := 0
		// accept_any: a checker that trusts any exchange RecvOnce reports as received (it does not look at the token)
		// panic: the checker itself fails (e.g. on a malformed credential) after it has received the token
		verdicts := []string{"accept", "reject", "reject_with_ret", "accept_any", "panic"}
		verdict := verdicts[vsched.Choose(len(verdicts), "verdict")]
		renames := vsched.Choose(2, "setid") == 1
		checker := auth.NewCheckerPlugin(func(sess auth.Session, recv auth.RecvOnce) (interface{}, *erpc.Status) {
			checkerRuns++
			var token string
			if st := recv(&token); !st.OK() {
				return nil, st
			}
			if renames {
				// checkers commonly name the session after the claimed identity before they verify it
				sess.SetID("user-7")
			}
			if verdict == "accept_any" {
				return "welcome", nil
			}
			if verdict == "panic" {
				var credential []byte
				_ = credential[len(token)] // index out of range
			}
			if token != "good" {
				return nil, erpc.NewStatus(erpc.CodeUnauthorized, "bad token", "")
			}
			switch verdict {
			case "reject":
				return nil, erpc.NewStatus(erpc.CodeUnauthorized, "not today", "")
			case "reject_with_ret":
				return "some detail", erpc.NewStatus(erpc.CodeUnauthorized, "not today", "")
			}
			return "welcome", nil
		})
		handled := 0
		srv := world.NewPeer("json", checker, rec)
		hc := srv.RouteCallFunc(func(ctx erpc.CallCtx, arg *string) (*string, *erpc.Status) { handled++; r := "ok"; return &r, nil })
		hp := srv.RoutePushFunc(func(ctx erpc.PushCtx, arg *string) *erpc.Status { handled++; return nil })
		srv.SetUnknownCall(func(ctx erpc.UnknownCallCtx) (interface{}, *erpc.Status) { handled++; return "u", nil })
		srv.SetUnknownPush(func(ctx erpc.UnknownPushCtx) *erpc.Status { handled++; return nil })

		enc := func(f world.Frame) []byte {
			b, ok := world.EncodeFrame(proto, f)
			if !ok {
				vsched.Failf("harness: %s cannot carry %s", proto, f.String())
			}
			return b
		}
		authGood := world.Frame{Seq: 1, Mtype: erpc.TypeAuthCall, Codec: 'j', Body: []byte(`"good"`)}
		firsts := []struct {
			name  string
			bytes []byte
		}{
			{"auth_good", enc(authGood)},
			{"auth_bad", enc(world.Frame{Seq: 1, Mtype: erpc.TypeAuthCall, Codec: 'j', Body: []byte(`"evil"`)})},
			{"auth_status", enc(world.Frame{Seq: 1, Mtype: erpc.TypeAuthCall, Status: "code=500&msg=x", Codec: 'j', Body: []byte(`"good"`)})},
			{"auth_undecodable", enc(world.Frame{Seq: 1, Mtype: erpc.TypeAuthCall, Codec: 'j', Body: []byte(`{{{`)})},
			{"call", enc(world.Frame{Seq: 1, Mtype: erpc.TypeCall, Method: hc, Codec: 'j', Body: []byte(`"good"`)})},
			{"push", enc(world.Frame{Seq: 1, Mtype: erpc.TypePush, Method: hp, Codec: 'j', Body: []byte(`"good"`)})},
			{"reply", enc(world.Frame{Seq: 1, Mtype: erpc.TypeReply, Codec: 'j', Body: []byte(`"good"`)})},
			{"auth_reply", enc(world.Frame{Seq: 1, Mtype: erpc.TypeAuthReply, Codec: 'j', Body: []byte(`"good"`)})},
			{"type9", enc(world.Frame{Seq: 1, Mtype: 9, Codec: 'j', Body: []byte(`"good"`)})},
			{"garbage", []byte("GET / HTTP/1.1\r\n\r\n")},
			{"zero_frame", []byte{0, 0, 0, 0}},
			{"prefix", nil},
			{"nothing", nil},
		}
		fi := vsched.Choose(len(firsts), "first")
		first := firsts[fi]
		if first.name == "prefix" {
			full := enc(authGood)
			k := 1 + vsched.Choose(len(full)-1, "prefixlen")
			first.bytes = full[:k]
			first.name = fmt.Sprintf("prefix%d", k)
		}
		npipe := vsched.Choose(3, "pipelined")
		when := vsched.Choose(2, "when") // 0: app frames right behind the first message, 1: after reading the verdict
		if strings.HasPrefix(first.name, "prefix") || first.name == "nothing" {
			// a truncated first message is followed by end of input, nothing else: bytes written behind it would
			// complete the announced frame, and a lenient decoder (the JSON protocol) can then read a valid AUTH_CALL
			npipe = 0
		}
		// the client may hang up right after its credentials, before the verdict can be delivered
		hangup := false
		if first.name == "auth_good" && verdict == "accept" && npipe == 0 {
			hangup = vsched.Choose(2, "hangup") == 1
		}
		ctxt := fmt.Sprintf("first=%s verdict=%s setid=%v pipelined=%d when=%d hangup=%v", first.name, verdict, renames, npipe, when, hangup)

		// the connection enters the server either through Peer.ServeConn or through the accept loop of a listener
		viaListener := vsched.Choose(2, "path") == 1
		var raw, sc *vnet.Conn
		var sess erpc.Session
		var accStat *erpc.Status
		var acceptor *vsched.Thread
		if viaListener {
			ctxt += " path=listener"
			const addr = "10.0.0.2:9000"
			lis := vnet.Listen(addr)
			vsched.Spawn("acceptloop", func() { erpc.VerifServeListener(srv, lis, world.Proto(proto)) })
			c, err := (&vnet.Dialer{}).Dial("tcp", addr)
			if err != nil {
				vsched.Failf("harness: dial: %v", err)
			}
			raw = c.(*vnet.Conn)
			sc = raw.Peer()
			acceptor = world.Go("acceptor", func() {})
		} else {
			raw, sc = vnet.Pipe(vnet.NewAddr(), vnet.NewAddr())
			acceptor = world.Go("acceptor", func() { sess, accStat = srv.ServeConn(sc, world.Proto(proto)) })
		}
		app := func(i int) []byte {
			if i == 0 {
				return enc(world.Frame{Seq: 10, Mtype: erpc.TypeCall, Method: hc, Codec: 'j', Body: []byte(`"a"`)})
			}
			return enc(world.Frame{Seq: 11, Mtype: erpc.TypePush, Method: hp, Codec: 'j', Body: []byte(`"b"`)})
		}
		client := world.Go("client", func() {
			if len(first.bytes) > 0 {
				raw.Write(first.bytes)
			}
			if when == 0 {
				for i := 0; i < npipe; i++ {
					raw.Write(app(i))
				}
			}
			if first.name == "nothing" || strings.HasPrefix(first.name, "prefix") || hangup {
				raw.Close()
				return
			}
			// read the verdict (if any)
			world.ReadFrameOf(raw, proto)
			if when == 1 {
				for i := 0; i < npipe; i++ {
					raw.Write(app(i))
				}
			}
		})
		vsched.Join(client)
		vsched.Join(acceptor)
		vsched.Quiesce()
		accepted := first.name == "auth_good" && verdict == "accept"
		if verdict == "accept_any" {
			// any well-formed AUTH_CALL whose body reaches the checker is accepted
			accepted = first.name == "auth_good" || first.name == "auth_bad"
		}
		if viaListener {
			// the accept loop returns nothing: reconstruct its outcome from the index
			srv.RangeSession(func(s erpc.Session) bool { sess = s; return false })
			if accepted && !hangup && sess == nil {
				vsched.Failf("valid authentication through the listener did not produce a session | %s", ctxt)
			}
			if sess == nil {
				accStat = erpc.NewStatus(erpc.CodeUnauthorized, "no session", "")
			}
		}
		if hangup {
			// whether the verdict could still be written depends on the schedule; both outcomes are legal
			accepted = accStat.OK()
		}
		perMsgHooks := 0
		for _, t := range trace {
			if !strings.Contains(t, ".postaccept#") && !strings.Contains(t, ".postdisconnect#") && !strings.Contains(t, ".prereadheader#") {
				perMsgHooks++
			}
		}
		out, _, _ := world.DecodeFrames(proto, raw.Peer().Written)
		authReplies := 0
		for _, f := range out {
			if f.Mtype == erpc.TypeAuthReply {
				authReplies++
			}
		}
		if authReplies > 1 {
			vsched.Failf("%d AUTH_REPLY frames on the wire | %s", authReplies, ctxt)
		}
		if checkerRuns != 1 {
			vsched.Failf("the checker ran %d times for one connection | %s", checkerRuns, ctxt)
		}
		if !accepted {
			if handled != 0 {
				vsched.Failf("%d handler invocation(s) on a connection that did not authenticate | %s", handled, ctxt)
			}
			if perMsgHooks != 0 {
				vsched.Failf("per-message hooks ran on a connection that did not authenticate: %v | %s", trace, ctxt)
			}
			if !viaListener && (accStat.OK() || sess != nil) {
				vsched.Failf("ServeConn returned a session for a connection that did not authenticate | %s", ctxt)
			}
			if !sc.IsClosed() {
				vsched.Failf("the rejected connection was not closed by the server | %s", ctxt)
			}
			if n := srv.CountSession(); n != 0 {
				vsched.Failf("a rejected connection is listed as a session (CountSession=%d, index %v) | %s", n, sessionsOf(srv), ctxt)
			}
			if _, ok := srv.GetSession("user-7"); ok {
				vsched.Failf("a rejected connection can be looked up under the id its checker assigned | %s", ctxt)
			}
			world.Counter("rejected")
		} else {
			if !accStat.OK() {
				vsched.Failf("valid authentication was rejected: %s | %s", world.StatStr(accStat), ctxt)
			}
			if authReplies != 1 && !hangup {
				vsched.Failf("accepted connection got %d AUTH_REPLY frames | %s", authReplies, ctxt)
			}
			if renames {
				if got, ok := srv.GetSession("user-7"); sess.ID() != "user-7" || (!hangup && (!ok || got != sess)) {
					vsched.Failf("accepted connection is not indexed under the id its checker assigned (id %q, index %v) | %s", sess.ID(), sessionsOf(srv), ctxt)
				}
			}
			if handled != npipe {
				vsched.Failf("accepted connection: %d handler invocations for %d application frames | %s", handled, npipe, ctxt)
			}
			world.Counter("accepted")
		}
		vsched.Logf("%s", ctxt)
		raw.Close()
		srv.Close()
		vsched.Quiesce()
		if l := vsched.Live(); l != 0 {
			vsched.Failf("%d goroutines still blocked after close: %s | %s", l, vsched.BlockedDesc(), ctxt)
		}
	}
}

func init() { Sched["c16_two"] = c16Two }

// c16Two: two connections authenticate at the same server at the same time, one with the valid token and one with
// a wrong token of the same length; the checker does some work (a scheduling point) between receiving the token and
// comparing it. Token codec json or plain (the auth body goes through the ordinary body codecs and pooled buffers).
// The wrong-token connection must be rejected whatever the interleaving: no handler, closed, not listed.
func c16Two(p Params) func() {
	proto := p.Get("proto", "raw")
	cd := p.Get("codec", "plain")
	return func() {
		begin()
		const good, evil = "tokenGOOD", "tokenEVIL"
		checkerRuns := 0
		checker := auth.NewCheckerPlugin(func(sess auth.Session, recv auth.RecvOnce) (interface{}, *erpc.Status) {
			checkerRuns++
			var token string
			if st := recv(&token); !st.OK() {
				return nil, st
			}
			vsched.Yield() // e.g. a lookup of the account
			if token != good {
				return nil, erpc.NewStatus(erpc.CodeUnauthorized, "bad token", "")
			}
			return "welcome", nil
		})
		handled := map[string]int{}
		srv := world.NewPeer("json", checker)
		hc := srv.RouteCallFunc(func(ctx erpc.CallCtx, arg *string) (*string, *erpc.Status) {
			handled[*arg]++
			r := "ok"
			return &r, nil
		})
		body := func(tok string) (byte, []byte) {
			if cd == "plain" {
				return 's', []byte(tok)
			}
			return 'j', []byte(`"` + tok + `"`)
		}
		type conn struct {
			name    string
			raw, sc *vnet.Conn
			sess    erpc.Session
			st      *erpc.Status
		}
		var cs []*conn
		var ths []*vsched.Thread
		for _, c := range []struct{ name, tok string }{{"evil", evil}, {"good", good}} {
			c := c
			x := &conn{name: c.name}
			x.raw, x.sc = vnet.Pipe(vnet.NewAddr(), vnet.NewAddr())
			cs = append(cs, x)
			ths = append(ths, world.Go("acceptor_"+c.name, func() { x.sess, x.st = srv.ServeConn(x.sc, world.Proto(proto)) }))
			ths = append(ths, world.Go("client_"+c.name, func() {
				id, b := body(c.tok)
				fb, _ := world.EncodeFrame(proto, world.Frame{Seq: 1, Mtype: erpc.TypeAuthCall, Codec: id, Body: b})
				x.raw.Write(fb)
				world.ReadFrameOf(x.raw, proto) // the verdict (or end of stream)
				ab, _ := world.EncodeFrame(proto, world.Frame{Seq: 10, Mtype: erpc.TypeCall, Method: hc, Codec: 'j', Body: []byte(`"from_` + c.name + `"`)})
				x.raw.Write(ab)
			}))
		}
		joinAll(ths)
		vsched.Quiesce()
		ev, gd := cs[0], cs[1]
		if checkerRuns != 2 {
			vsched.Failf("the checker ran %d times for two connections", checkerRuns)
		}
		if ev.st.OK() || ev.sess != nil {
			vsched.Failf("the connection that presented a wrong token was accepted (codec %s)", cd)
		}
		if handled["from_evil"] != 0 {
			vsched.Failf("a handler ran for the connection that presented a wrong token (codec %s)", cd)
		}
		if !ev.sc.IsClosed() {
			vsched.Failf("the rejected connection was not closed by the server")
		}
		if !gd.st.OK() || gd.sess == nil {
			vsched.Failf("the connection with the valid token was rejected: %s (codec %s)", world.StatStr(gd.st), cd)
		}
		if handled["from_good"] != 1 {
			vsched.Failf("the authenticated connection's call was handled %d times", handled["from_good"])
		}
		if n := srv.CountSession(); n != 1 {
			vsched.Failf("%d sessions listed, exactly one connection authenticated (index %v)", n, sessionsOf(srv))
		}
		for _, x := range cs {
			x.raw.Close()
		}
		srv.Close()
		vsched.Quiesce()
		if l := vsched.Live(); l != 0 {
			vsched.Failf("%d goroutines still blocked after close: %s", l, vsched.BlockedDesc())
		}
	}
}
