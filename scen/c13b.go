package scen

import (
	"fmt"
	"time"

	erpc "github.com/henrylee2cn/erpc/v6"

	"verif/shim/vnet"
	"verif/shim/vsched"
	"verif/world"
)

func init() { Sched["c13_during"] = c13During }

// c13During: a call is issued from another goroutine while the session is reconnecting after a loss. It is sent once
// the new connection stands and is then held by its handler while the session is used for `more` further calls;
// the held call is answered last. Every call gets the reply to its own arguments (C01 across a redial), the held
// call completes, none hangs.
func c13During(p Params) func() {
	more := p.Int("more", 4)
	pre := p.Int("pre", 1) // calls made before the loss (they advance the sequence counter)
	return func() {
		begin()
		const addr = "10.0.0.1:9000"
		lis := vnet.Listen(addr)
		gate := &world.Gate{}
		srv := world.NewPeer("json")
		h := srv.RouteCallFunc(func(ctx erpc.CallCtx, a *string) (*string, *erpc.Status) {
			if *a == "held" {
				gate.Wait()
			}
			r := "r:" + *a
			return &r, nil
		})
		vsched.Spawn("acceptloop", func() { erpc.VerifServeListener(srv, lis) })
		// the client's dial hook of the reconnect takes a while (a handshake): the harness holds it at a gate, so that
		// the call below is issued while the reconnect is in progress
		var trace []string
		rec := NewRec("crec", &trace)
		rec.Only = map[string]bool{"postdial": true, "postdial_redial": true}
		redialGate := &world.Gate{}
		rec.OnStage = func(stage string) {
			if stage == "postdial_redial" {
				redialGate.Wait()
			}
		}
		cli := erpc.NewPeer(erpc.PeerConfig{DefaultBodyCodec: "json", RedialTimes: 2, RedialInterval: time.Millisecond}, rec)
		sess, st := cli.Dial(addr)
		if !st.OK() {
			vsched.Failf("initial dial failed: %v", st)
		}
		for i := 0; i < pre; i++ {
			var r string
			arg := fmt.Sprint("p", i)
			if st := sess.Call(h, arg, &r).Status(); !st.OK() || r != "r:"+arg {
				vsched.Failf("call before the loss failed: %s %q", world.StatStr(st), r)
			}
		}
		// the loss, and at the same time a call from another goroutine
		var sc *vnet.Conn
		for _, x := range vnet.Conns() {
			if x.LocalAddr().String() == addr && !x.IsClosed() && !x.Broken() {
				sc = x
			}
		}
		var heldRes string
		var heldCmd erpc.CallCmd
		breaker := world.Go("breaker", func() { sc.Break() })
		vsched.Join(breaker)
		vsched.Quiesce() // the reader has noticed the loss and is reconnecting (held in its dial hook)
		caller := world.Go("caller", func() { heldCmd = sess.Call(h, "held", &heldRes) })
		vsched.Quiesce() // the call has been issued and waits for the reconnect
		redialGate.Open()
		vsched.Quiesce() // the held call has either failed with a connection error or sits in its handler
		if !sess.Health() {
			vsched.Failf("session is not healthy after the loss although the server is reachable")
		}
		for i := 0; i < more; i++ {
			var r string
			arg := fmt.Sprint("m", i)
			if st := sess.Call(h, arg, &r).Status(); !st.OK() || r != "r:"+arg {
				vsched.Failf("call %q after the reconnect got status %s result %q, want its own reply %q", arg, world.StatStr(st), r, "r:"+arg)
			}
		}
		gate.Open()
		vsched.Join(caller)
		if hst := heldCmd.Status(); hst.OK() {
			if heldRes != "r:held" {
				vsched.Failf("the call issued during the reconnect completed OK with result %q, want %q", heldRes, "r:held")
			}
			world.Counter("held_ok")
		} else if !erpc.IsConnError(hst) && hst.Code() != erpc.CodeWriteFailed {
			vsched.Failf("the call issued during the reconnect failed with %s, want its reply or a connection error", world.StatStr(hst))
		} else {
			world.Counter("held_connerr")
		}
		vsched.Logf("held=%s", statClass(heldCmd.Status()))
		cli.Close()
		srv.Close()
	}
}
