package scen

import (
	"fmt"
	"path"
	"sort"
	"strings"
	"unicode"

	erpc "github.com/henrylee2cn/erpc/v6"

	"verif/shim/vsched"
	"verif/shim/vsync"
	"verif/world"
)

func init() {
	Enum["c10_mapper"] = c10Mapper
	Sched["c10_route"] = c10Route
}

// ---- (i) the mappers ----

// reference for the sub-language where the documentation is unambiguous:
// words of letters separated by "_" (-> separator) or "__" (-> "_").
func refSegments(name string) ([]string, []string, bool) {
	var words, seps []string
	cur := ""
	i := 0
	for i < len(name) {
		if name[i] == '_' {
			j := i
			for j < len(name) && name[j] == '_' {
				j++
			}
			if j-i > 2 || cur == "" || j == len(name) {
				return nil, nil, false // leading/trailing/3+ underscores: not specified
			}
			words = append(words, cur)
			cur = ""
			seps = append(seps, name[i:j])
			i = j
			continue
		}
		if name[i] >= '0' && name[i] <= '9' {
			return nil, nil, false // digits: snake rule for digits is not specified
		}
		cur += string(name[i])
		i++
	}
	if cur == "" {
		return nil, nil, false
	}
	words = append(words, cur)
	return words, seps, true
}

func refSnake(w string) string {
	var b strings.Builder
	for i, r := range w {
		if unicode.IsUpper(r) && i > 0 && unicode.IsLower(rune(w[i-1])) {
			b.WriteByte('_')
		}
		b.WriteRune(unicode.ToLower(r))
	}
	return b.String()
}

func refRPC(prefix, name string) (string, bool) {
	words, seps, ok := refSegments(name)
	if !ok {
		return "", false
	}
	out := words[0]
	for i, s := range seps {
		if s == "_" {
			out += "."
		} else {
			out += "_"
		}
		out += words[i+1]
	}
	return strings.Trim(prefix+"."+out, "."), true
}

func refHTTP(prefix, name string) (string, bool) {
	words, seps, ok := refSegments(name)
	if !ok {
		return "", false
	}
	out := refSnake(words[0])
	for i, s := range seps {
		if s == "_" {
			out += "/"
		} else {
			out += "_"
		}
		out += refSnake(words[i+1])
	}
	return path.Join("/", prefix, out), true
}

var readmeRows = [][3]string{
	{"AaBb", "/aa_bb", "AaBb"}, {"ABcXYz", "/abc_xyz", "ABcXYz"}, {"Aa__Bb", "/aa_bb", "Aa_Bb"}, {"aa__bb", "/aa_bb", "aa_bb"},
	{"ABC__XYZ", "/abc_xyz", "ABC_XYZ"}, {"Aa_Bb", "/aa/bb", "Aa.Bb"}, {"aa_bb", "/aa/bb", "aa.bb"}, {"ABC_XYZ", "/abc/xyz", "ABC.XYZ"},
}

func c10Mapper(c *EnumCtx) {
	begin()
	maxLen := c.P.Int("len", 5)
	for _, row := range readmeRows {
		if !c.Mine() {
			continue
		}
		c.Case("readme", row[0])
		if got := erpc.HTTPServiceMethodMapper("", row[0]); got != row[1] {
			c.Fail("HTTP mapper differs from the documented table", row[0], fmt.Sprintf("got %q, documented %q", got, row[1]))
		}
		if got := erpc.RPCServiceMethodMapper("", row[0]); got != row[2] {
			c.Fail("RPC mapper differs from the documented table", row[0], fmt.Sprintf("got %q, documented %q", got, row[2]))
		}
	}
	alpha := []byte{'A', 'B', 'a', 'b', '_', '1'}
	prefixes := []string{"", "g", "/g/", "a_b", "X"}
	var gen func(cur []byte)
	n := 0
	gen = func(cur []byte) {
		if len(cur) > 0 && c.Mine() {
			name := string(cur)
			for _, pre := range prefixes {
				c.Evaluations++
				for _, m := range []struct {
					n   string
					f   func(string, string) string
					ref func(string, string) (string, bool)
				}{{"HTTP", erpc.HTTPServiceMethodMapper, refHTTP}, {"RPC", erpc.RPCServiceMethodMapper, refRPC}} {
					var got, got2 string
					func() {
						defer func() {
							if r := recover(); r != nil {
								c.Fail(m.n+" mapper panics", fmt.Sprintf("(%q,%q)", pre, name), fmt.Sprint(r))
							}
						}()
						got = m.f(pre, name)
						got2 = m.f(pre, name)
					}()
					if got != got2 {
						c.Fail(m.n+" mapper is not deterministic", fmt.Sprintf("(%q,%q)", pre, name), got+" vs "+got2)
					}
					if want, ok := m.ref(strings.Trim(pre, "/"), name); ok && (pre == "" || pre == "g" || pre == "/g/" && m.n == "HTTP") {
						if got != want {
							c.Fail(m.n+" mapper differs from the documented rules", fmt.Sprintf("(%q,%q)", pre, name), fmt.Sprintf("got %q, rules give %q", got, want))
						}
						c.Count("checked_against_reference")
					}
				}
			}
			n++
			if n%40 == 1 {
				c.Case(fmt.Sprintf("ident-len%d", len(cur)), name)
			}
		}
		if len(cur) == maxLen {
			return
		}
		for _, a := range alpha {
			gen(append(append([]byte{}, cur...), a))
		}
	}
	gen(nil)
}

// ---- (ii) dispatch ----

var c10ran []string

func ran(id string) { c10ran = append(c10ran, id) }

type Aa struct{ erpc.CallCtx }

func (x *Aa) Bb(arg *string) (string, *erpc.Status)     { ran("Aa.Bb"); return "Aa.Bb", nil }
func (x *Aa) Cc_Dd(arg *string) (string, *erpc.Status)  { ran("Aa.Cc_Dd"); return "Aa.Cc_Dd", nil }
func (x *Aa) Ee__Ff(arg *string) (string, *erpc.Status) { ran("Aa.Ee__Ff"); return "Aa.Ee__Ff", nil }

type Aa_Cc struct{ erpc.CallCtx }

func (x *Aa_Cc) Dd(arg *string) (string, *erpc.Status) { ran("Aa_Cc.Dd"); return "Aa_Cc.Dd", nil }

type AaBb struct{ erpc.CallCtx }

func (x *AaBb) Zz(arg *string) (string, *erpc.Status) { ran("AaBb.Zz"); return "AaBb.Zz", nil }

type Aa__Bb struct{ erpc.CallCtx }

func (x *Aa__Bb) Zz(arg *string) (string, *erpc.Status) { ran("Aa__Bb.Zz"); return "Aa__Bb.Zz", nil }

// Dup has two methods that map to the same name under the HTTP mapper (and to different names under the RPC mapper).
type Dup struct{ erpc.CallCtx }

func (x *Dup) XxYy(arg *string) (string, *erpc.Status)   { ran("Dup.XxYy"); return "Dup.XxYy", nil }
func (x *Dup) Xx__Yy(arg *string) (string, *erpc.Status) { ran("Dup.Xx__Yy"); return "Dup.Xx__Yy", nil }

type Pp struct{ erpc.PushCtx }

func (x *Pp) Bb(arg *string) *erpc.Status { ran("Pp.Bb"); return nil }

type AaP struct{ erpc.PushCtx }

func (x *AaP) Bb(arg *string) *erpc.Status { ran("AaP.Bb"); return nil }

func FnOne(ctx erpc.CallCtx, arg *string) (string, *erpc.Status) { ran("FnOne"); return "FnOne", nil }
func Fn_Two(ctx erpc.CallCtx, arg *string) (string, *erpc.Status) {
	ran("Fn_Two")
	return "Fn_Two", nil
}
func PushOne(ctx erpc.PushCtx, arg *string) *erpc.Status { ran("PushOne"); return nil }

type regItem struct {
	id    string   // handler ids this registration provides
	ids   []string // per returned name (same order)
	push  bool
	ctrl  string   // controller struct name ("" for a function)
	meths []string // method / function identifiers (sorted like reflect's method set)
	doReg func(r *erpc.SubRouter) []string
}

// expectedNames computes the names a registration must produce, from the documented construction
// (group prefix, struct name, method name) with the mapper that part (i) checks against the documentation.
func (it regItem) expectedNames(mapper func(string, string) string, prefix string) []string {
	var out []string
	for _, m := range it.meths {
		if it.ctrl != "" {
			out = append(out, mapper(mapper(prefix, it.ctrl), m))
		} else {
			out = append(out, mapper(prefix, m))
		}
	}
	return out
}

func c10Items() []regItem {
	return []regItem{
		{id: "Dup", ids: []string{"Dup.XxYy", "Dup.Xx__Yy"}, ctrl: "Dup", meths: []string{"XxYy", "Xx__Yy"}, doReg: func(r *erpc.SubRouter) []string { return r.RouteCall(new(Dup)) }},
		{id: "Aa", ids: []string{"Aa.Bb", "Aa.Cc_Dd", "Aa.Ee__Ff"}, ctrl: "Aa", meths: []string{"Bb", "Cc_Dd", "Ee__Ff"}, doReg: func(r *erpc.SubRouter) []string { return r.RouteCall(new(Aa)) }},
		{id: "Aa_Cc", ids: []string{"Aa_Cc.Dd"}, ctrl: "Aa_Cc", meths: []string{"Dd"}, doReg: func(r *erpc.SubRouter) []string { return r.RouteCall(new(Aa_Cc)) }},
		{id: "AaBb", ids: []string{"AaBb.Zz"}, ctrl: "AaBb", meths: []string{"Zz"}, doReg: func(r *erpc.SubRouter) []string { return r.RouteCall(new(AaBb)) }},
		{id: "Aa__Bb", ids: []string{"Aa__Bb.Zz"}, ctrl: "Aa__Bb", meths: []string{"Zz"}, doReg: func(r *erpc.SubRouter) []string { return r.RouteCall(new(Aa__Bb)) }},
		{id: "FnOne", ids: []string{"FnOne"}, meths: []string{"FnOne"}, doReg: func(r *erpc.SubRouter) []string { return []string{r.RouteCallFunc(FnOne)} }},
		{id: "Fn_Two", ids: []string{"Fn_Two"}, meths: []string{"Fn_Two"}, doReg: func(r *erpc.SubRouter) []string { return []string{r.RouteCallFunc(Fn_Two)} }},
		{id: "AaBbFunc", ids: []string{"Aa.Bb"}, meths: []string{"Bb"}, doReg: func(r *erpc.SubRouter) []string { return []string{r.RouteCallFunc((*Aa).Bb)} }},
		{id: "Pp", ids: []string{"Pp.Bb"}, push: true, ctrl: "Pp", meths: []string{"Bb"}, doReg: func(r *erpc.SubRouter) []string { return r.RoutePush(new(Pp)) }},
		{id: "AaP", ids: []string{"AaP.Bb"}, push: true, ctrl: "AaP", meths: []string{"Bb"}, doReg: func(r *erpc.SubRouter) []string { return r.RoutePush(new(AaP)) }},
		{id: "PushOne", ids: []string{"PushOne"}, push: true, meths: []string{"PushOne"}, doReg: func(r *erpc.SubRouter) []string { return []string{r.RoutePushFunc(PushOne)} }},
	}
}

func nearMisses(name string) []string {
	out := []string{name + "/", "/" + name, strings.Replace(name, "/", "/./", 1), "/x/.." + name, strings.Replace(name, "/", "//", 2), strings.ToUpper(name), strings.TrimPrefix(name, "/"), name + "x", "x" + name, name + "_", strings.Replace(name, "_", "/", 1), strings.Replace(name, "/", "_", 2), strings.Replace(name, ".", "_", 1)}
	if len(name) > 1 {
		out = append(out, name[:len(name)-1], name[1:])
	}
	if i := strings.LastIndexAny(name, "/."); i > 0 {
		out = append(out, name[:i])
	}
	return out
}

// c10Route: register every ordered pair of items under a choice of groups; then request every returned name and near-miss.
func c10Route(p Params) func() {
	proto := p.Get("proto", "raw")
	return func() {
		begin()
		items := c10Items()
		mapperIdx := vsched.Choose(2, "mapper")
		if proto == "http" && mapperIdx == 1 {
			world.Counter("not_representable") // the HTTP-style protocol carries URL paths
			return
		}
		if mapperIdx == 1 {
			erpc.SetServiceMethodMapper(erpc.RPCServiceMethodMapper)
		}
		unknown := vsched.Choose(2, "unknown") == 1
		// the process may run with logging switched off: a conflicting registration must still not go through
		// (the framework ends the process; the instrumented build turns os.Exit into a panic of the caller)
		logOff := vsched.Choose(2, "logging_off") == 1
		if logOff {
			erpc.SetLoggerLevel2(erpc.OFF)
			defer erpc.SetLoggerLevel2(erpc.CRITICAL)
		}
		i1 := vsched.Choose(len(items), "item1")
		i2 := vsched.Choose(len(items)+1, "item2") // last = none
		g1 := vsched.Choose(3, "group1")
		g2 := vsched.Choose(3, "group2")
		srv := world.NewPeer("json")
		groups := []*erpc.SubRouter{srv.SubRoute(""), srv.SubRoute("g"), srv.SubRoute("g").SubRoute("Hh_Ii")}
		owner := map[string]string{} // call name -> handler id
		pownr := map[string]string{} // push name -> handler id
		ctxt := fmt.Sprintf("mapper=%d unknown=%v logging_off=%v reg=[%s@%d", mapperIdx, unknown, logOff, items[i1].id, g1)
		mapper := erpc.HTTPServiceMethodMapper
		if mapperIdx == 1 {
			mapper = erpc.RPCServiceMethodMapper
		}
		prefixes := []string{mapper("", ""), mapper(mapper("", ""), "g"), mapper(mapper(mapper("", ""), "g"), "Hh_Ii")}
		taken := map[bool]map[string]bool{false: {}, true: {}}
		doReg := func(it regItem, g int) (conflict bool) {
			// reference verdict: a registration must fail iff one of its names is already taken (or repeated within it)
			wantConflict := false
			seen := map[string]bool{}
			want := it.expectedNames(mapper, prefixes[g])
			for _, n := range want {
				if taken[it.push][n] || seen[n] {
					wantConflict = true
				}
				seen[n] = true
			}
			defer func() {
				if conflict != wantConflict {
					vsched.Failf("registration of %s under group %d: conflict reported=%v, but by the naming rules (names %v) it should be %v | %s", it.id, g, conflict, want, wantConflict, ctxt)
				}
				if !conflict {
					for _, n := range want {
						taken[it.push][n] = true
					}
				}
			}()
			var names []string
			func() {
				defer func() {
					if r := recover(); r != nil {
						if _, ok := r.(world.FatalError); ok {
							conflict = true
							return
						}
						if _, ok := r.(vsync.ExitError); ok {
							conflict = true
							return
						}
						panic(r)
					}
				}()
				names = it.doReg(groups[g])
			}()
			if conflict {
				return true
			}
			if len(names) != len(it.ids) {
				vsched.Failf("registration of %s returned %d names for %d handlers | %s", it.id, len(names), len(it.ids), ctxt)
			}
			if fmt.Sprint(names) != fmt.Sprint(want) {
				vsched.Failf("registration of %s returned the names %v, the naming rules give %v | %s", it.id, names, want, ctxt)
			}
			// methods are returned in the order of reflect's method set (sorted by name)
			ids := append([]string(nil), it.ids...)
			sort.Strings(ids)
			for k, n := range names {
				m := owner
				if it.push {
					m = pownr
				}
				if prev, dup := m[n]; dup {
					vsched.Failf("two registrations silently share the name %q (%s and %s) | %s", n, prev, ids[k], ctxt)
				}
				m[n] = ids[k]
			}
			return false
		}
		if doReg(items[i1], g1) {
			world.Counter("conflicts")
			vsched.Logf("conflict %s", ctxt)
			return
		}
		if i2 < len(items) {
			ctxt += fmt.Sprintf(" %s@%d", items[i2].id, g2)
			conflict := doReg(items[i2], g2)
			if conflict {
				world.Counter("conflicts")
				// a conflicting registration must be justified by a real name clash: verified by the duplicate check above on success;
				// nothing more to do in this execution (the framework would have exited)
				vsched.Logf("conflict %s", ctxt)
				return
			}
		}
		ctxt += "]"
		if logOff {
			vsched.Logf("logging off %s", ctxt)
			return // dispatch does not depend on the logger; it is enumerated with logging on
		}
		unknownRan, unknownPushRan := 0, 0
		if unknown {
			srv.SetUnknownCall(func(ctx erpc.UnknownCallCtx) (interface{}, *erpc.Status) {
				unknownRan++
				return "unknown", nil
			})
			srv.SetUnknownPush(func(ctx erpc.UnknownPushCtx) *erpc.Status {
				unknownPushRan++
				return nil
			})
		}
		cli := world.NewPeer("json")
		cs, _, _ := world.Connect(cli, srv, world.Proto(proto))
		reqs := map[string]bool{}
		for n := range owner {
			reqs[n] = true
			for _, m := range nearMisses(n) {
				reqs[m] = true
			}
		}
		for n := range pownr {
			reqs[n] = true
			for _, m := range nearMisses(n) {
				reqs[m] = true
			}
		}
		var names []string
		for n := range reqs {
			if proto == "http" && (!strings.HasPrefix(n, "/") || strings.HasPrefix(n, "//") || strings.ContainsAny(n, " ?#%")) {
				continue // not a URL path
			}
			if n != "" && len(n) < 200 {
				names = append(names, n)
			}
		}
		sort.Strings(names)
		for _, n := range names {
			// as CALL
			c10ran = nil
			unknownRan, unknownPushRan = 0, 0
			var res string
			st := cs.Call(n, "x", &res).Status()
			vsched.Quiesce()
			if id, ok := owner[n]; ok {
				if !st.OK() || res != id || len(c10ran) != 1 || c10ran[0] != id {
					vsched.Failf("CALL %q should run handler %s: status %s result %q ran %v | %s", n, id, world.StatStr(st), res, c10ran, ctxt)
				}
			} else {
				if len(c10ran) != 0 {
					vsched.Failf("CALL of the unregistered name %q ran registered handler(s) %v | %s", n, c10ran, ctxt)
				}
				if unknown {
					if !st.OK() || unknownRan != 1 || unknownPushRan != 0 {
						vsched.Failf("CALL of an unregistered name with unknown-handlers set: status, unknown-call handler runs, unknown-push handler runs are not (OK,1,0) | %q: %s, %d, %d, %s", n, world.StatStr(st), unknownRan, unknownPushRan, ctxt)
					}
				} else if st.Code() != erpc.CodeNotFound {
					vsched.Failf("CALL of the unregistered name %q returned %s, want 404 | %s", n, world.StatStr(st), ctxt)
				}
			}
			if proto == "http" {
				world.Counter("requests")
				continue // no PUSH in the HTTP-style protocol
			}
			// as PUSH
			c10ran = nil
			unknownRan, unknownPushRan = 0, 0
			if pst := cs.Push(n, "x"); !pst.OK() {
				vsched.Failf("push write failed: %v", pst)
			}
			vsched.Quiesce()
			if id, ok := pownr[n]; ok {
				if len(c10ran) != 1 || c10ran[0] != id {
					vsched.Failf("PUSH %q should run handler %s, ran %v | %s", n, id, c10ran, ctxt)
				}
			} else {
				if len(c10ran) != 0 {
					vsched.Failf("PUSH of the unregistered name %q ran registered handler(s) %v | %s", n, c10ran, ctxt)
				}
				if unknown && (unknownPushRan != 1 || unknownRan != 0) {
					vsched.Failf("PUSH of an unregistered name with unknown-handlers set: unknown-push handler ran %d times and unknown-call handler %d times, want 1 and 0 | %q %s", unknownPushRan, unknownRan, n, ctxt)
				}
				if !unknown && unknownRan+unknownPushRan != 0 {
					vsched.Failf("an unknown handler ran although none is set")
				}
			}
			world.Counter("requests")
		}
		vsched.Logf("%s names=%d", ctxt, len(names))
	}
}

func init() { Sched["c10_rewrite"] = c10Rewrite }

// aliasPlugin rewrites the service method of incoming CALL and PUSH headers (as plugin/ignorecase and routing
// plugins do with ReadCtx.ResetServiceMethod); dispatch must follow the rewritten name.
type aliasPlugin struct {
	alias map[string]string
	lower bool
}

func (a *aliasPlugin) Name() string { return "alias" }
func (a *aliasPlugin) rewrite(ctx erpc.ReadCtx) *erpc.Status {
	m := ctx.ServiceMethod()
	if a.lower {
		m = strings.ToLower(m)
	}
	if to, ok := a.alias[m]; ok {
		m = to
	}
	if m != ctx.ServiceMethod() {
		ctx.ResetServiceMethod(m)
	}
	return nil
}
func (a *aliasPlugin) PostReadCallHeader(ctx erpc.ReadCtx) *erpc.Status { return a.rewrite(ctx) }
func (a *aliasPlugin) PostReadPushHeader(ctx erpc.ReadCtx) *erpc.Status { return a.rewrite(ctx) }

// c10Rewrite: a header plugin rewrites the requested name; the handler that runs is the one registered under the
// rewritten name, it sees that name, and a name that rewrites to nothing registered is unknown.
func c10Rewrite(p Params) func() {
	return func() {
		begin()
		lower := vsched.Choose(2, "ignorecase") == 1
		unknown := vsched.Choose(2, "unknown") == 1
		pl := &aliasPlugin{alias: map[string]string{}, lower: lower}
		srv := world.NewPeer("json", pl)
		type ran struct{ reg, saw string }
		var runs []ran
		// the names are whatever the router derives for these functions; the alias table points at them
		var n1, n2, np string
		n1 = srv.SubRoute("/a").RouteCallFunc(func(ctx erpc.CallCtx, a *string) (*string, *erpc.Status) {
			runs = append(runs, ran{n1, ctx.ServiceMethod()})
			r := n1
			return &r, nil
		})
		n2 = srv.SubRoute("/b").RouteCallFunc(func(ctx erpc.CallCtx, a *int) (*string, *erpc.Status) {
			runs = append(runs, ran{n2, ctx.ServiceMethod()})
			r := n2
			return &r, nil
		})
		np = srv.SubRoute("/p").RoutePushFunc(func(ctx erpc.PushCtx, a *string) *erpc.Status {
			runs = append(runs, ran{np, ctx.ServiceMethod()})
			return nil
		})
		if n1 != strings.ToLower(n1) || n2 != strings.ToLower(n2) || np != strings.ToLower(np) || n1 == n2 {
			vsched.Failf("harness: unexpected route names %q %q %q", n1, n2, np)
		}
		pl.alias["/old/one"], pl.alias["/old/two"], pl.alias["/old/note"], pl.alias["/old/gone"] = n1, n2, np, "/a/gone"
		if unknown {
			srv.SetUnknownCall(func(ctx erpc.UnknownCallCtx) (interface{}, *erpc.Status) {
				runs = append(runs, ran{"<unknown call>", ctx.ServiceMethod()})
				return "u", nil
			})
			srv.SetUnknownPush(func(ctx erpc.UnknownPushCtx) *erpc.Status {
				runs = append(runs, ran{"<unknown push>", ctx.ServiceMethod()})
				return nil
			})
		}
		cli := world.NewPeer("json")
		cs, _, _ := world.Connect(cli, srv, nil)
		wires := []string{n1, n2, np, "/old/one", "/old/two", "/old/note", "/old/gone", strings.ToUpper(n1), "/OLD/TWO", "/Old/Note", "/nope"}
		wire := wires[vsched.Choose(len(wires), "wire")]
		push := vsched.Choose(2, "kind") == 1
		// reference: the name after the plugin
		want := wire
		if lower {
			want = strings.ToLower(want)
		}
		if to, ok := pl.alias[want]; ok {
			want = to
		}
		registered := map[bool]map[string]bool{false: {n1: true, n2: true}, true: {np: true}}
		ctxt := fmt.Sprintf("wire=%s push=%v ignorecase=%v unknown=%v rewritten=%s", wire, push, lower, unknown, want)
		var st *erpc.Status
		var res string
		if push {
			st = cs.Push(wire, "x")
		} else {
			arg := interface{}("x")
			if want == n2 {
				arg = 7
			}
			st = cs.Call(wire, arg, &res).Status()
		}
		vsched.Quiesce()
		switch {
		case registered[push][want]:
			if len(runs) != 1 || runs[0].reg != want {
				vsched.Failf("request rewritten to %s ran %v, want exactly the handler registered under that name | %s", want, runs, ctxt)
			}
			if runs[0].saw != want {
				vsched.Failf("handler registered as %s ran with ServiceMethod()=%s | %s", want, runs[0].saw, ctxt)
			}
			if !push && (!st.OK() || res != want) {
				vsched.Failf("call rewritten to %s returned %s %q | %s", want, world.StatStr(st), res, ctxt)
			}
		case unknown:
			wantU := "<unknown call>"
			if push {
				wantU = "<unknown push>"
			}
			if len(runs) != 1 || runs[0].reg != wantU {
				vsched.Failf("request for an unregistered name ran %v, want only the %s handler | %s", runs, wantU, ctxt)
			}
		default:
			if len(runs) != 0 {
				vsched.Failf("request for an unregistered name ran %v | %s", runs, ctxt)
			}
			if !push && st.Code() != erpc.CodeNotFound {
				vsched.Failf("call to an unregistered name returned %s, want 404 | %s", world.StatStr(st), ctxt)
			}
		}
		vsched.Logf("%s", ctxt)
	}
}
