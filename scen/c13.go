package scen

import (
	"fmt"
	"strings"
	"time"

	erpc "github.com/henrylee2cn/erpc/v6"
	"github.com/henrylee2cn/erpc/v6/plugin/secure"

	"verif/shim/vnet"
	"verif/shim/vsched"
	"verif/world"
)

func init() { Sched["c13"] = c13 }

// c13: a redial-enabled client session survives connection loss.
//
//	budget: RedialTimes (0, n, -1)
//	fault : idle | rclose | awaiting | write | both | both2
//	down  : number of dial attempts refused after the loss
func c13(p Params) func() {
	budget := p.Int("budget", 1)
	fault := p.Get("fault", "idle")
	down := p.Int("down", 0)
	setid := p.Get("setid", "1") == "1"
	losses := p.Int("losses", 1)            // further losses (while idle) after the session survived the first one
	hookReject := p.Get("hook", "0") == "1" // the unavailable attempts fail in the client's PostDial hook instead of at the network
	return func() {
		begin()
		if hookReject {
			vsched.Tag("fault=" + fault + " hook")
		} else {
			vsched.Tag("fault=" + fault)
		}
		const addr = "10.0.0.1:9000"
		lis := vnet.Listen(addr)
		gate := &world.Gate{}
		block := false
		srv := world.NewPeer("json")
		h := srv.RouteCallFunc(func(ctx erpc.CallCtx, a *string) (*string, *erpc.Status) {
			if block {
				gate.Wait()
			}
			r := "r:" + *a
			return &r, nil
		})
		vsched.Spawn("acceptloop", func() { erpc.VerifServeListener(srv, lis) })
		var trace []string
		rec := NewRec("crec", &trace)
		rec.Only = map[string]bool{"postdial": true, "postdial_redial": true, "prewritecall": true, "postwritecall": true, "postreadreplyheader": true}
		cli := erpc.NewPeer(erpc.PeerConfig{DefaultBodyCodec: "json", RedialTimes: int32(budget), RedialInterval: time.Millisecond}, rec)
		sess, st := cli.Dial(addr)
		if !st.OK() {
			vsched.Failf("initial dial failed: %v", st)
		}
		vsched.Quiesce()
		wantID := sess.ID()
		if setid {
			sess.SetID("user-1")
			wantID = "user-1"
		}
		var r0 string
		if st := sess.Call(h, "a", &r0).Status(); !st.OK() || r0 != "r:a" {
			vsched.Failf("call before the fault failed: %s", world.StatStr(st))
		}
		reqLen := 0
		for _, x := range vnet.Conns() {
			if x.RemoteAddr().String() == addr {
				reqLen = len(x.Written) // one request frame of the same size as the ones sent below
			}
		}
		dialsBefore := vnet.DialCount(addr)
		round := 1 + budget // attempts per round
		never := budget >= 0 && down >= round
		// the server is unreachable for the first `down` attempts after the loss; if that exhausts the first round it stays unreachable
		if hookReject {
			redials := 0
			rec.OnStage = func(stage string) {
				if stage == "postdial_redial" {
					redials++
					if never || redials <= down {
						rec.Veto["postdial_redial"] = erpc.NewStatus(erpc.CodeDialFailed, "redial handshake rejected", "")
					} else {
						delete(rec.Veto, "postdial_redial")
					}
				}
			}
		} else {
			vnet.DialHook = func(a string, attempt int) bool { return never || attempt-dialsBefore <= down }
		}
		serverConn := func() *vnet.Conn {
			var c *vnet.Conn
			srv.RangeSession(func(s erpc.Session) bool { return true })
			for _, x := range vnet.Conns() {
				if x.LocalAddr().String() == addr && !x.IsClosed() && !x.Broken() {
					c = x
				}
			}
			return c
		}
		ctxt := fmt.Sprintf("budget=%d fault=%s down=%d setid=%v", budget, fault, down, setid)
		var inflight erpc.CallCmd
		var inflightRes string
		switch fault {
		case "idle":
			serverConn().Break()
		case "rclose":
			serverConn().Close()
		case "awaiting":
			block = true
			caller := world.Go("caller", func() { inflight = sess.Call(h, "b", &inflightRes) })
			vsched.Quiesce() // the request is at the handler, which waits on the gate
			serverConn().Break()
			vsched.Join(caller)
			block = false
			gate.Open()
		case "write":
			// the connection dies while the request is being written (detected by the writer)
			c := serverConn().Peer()
			k := vsched.Choose(reqLen, "cutoffset")
			c.CutAfter(len(c.Written) + k)
			caller := world.Go("caller", func() { inflight = sess.Call(h, "b", &inflightRes) })
			vsched.Join(caller)
		case "both":
			// reader and writer notice the loss concurrently
			sc := serverConn()
			caller := world.Go("caller", func() { inflight = sess.Call(h, "b", &inflightRes) })
			breaker := world.Go("breaker", func() { sc.Break() })
			vsched.Join(caller)
			vsched.Join(breaker)
		case "both2":
			// as "both", with the loss already delivered when the caller starts: only the reader's
			// disconnect handling and the caller's write race (a smaller space, explored deeper)
			serverConn().Break()
			caller := world.Go("caller", func() { inflight = sess.Call(h, "b", &inflightRes) })
			vsched.Join(caller)
		}
		vsched.Quiesce()
		attempts := vnet.DialCount(addr) - dialsBefore
		if inflight != nil {
			if !world.IsDone(inflight) {
				vsched.Failf("the call in flight at the loss never completed | %s", ctxt)
			}
			ist := inflight.Status()
			if ist.OK() && inflightRes != "r:b" {
				vsched.Failf("in-flight call OK with result %q | %s", inflightRes, ctxt)
			}
			vsched.Logf("inflight=%s", statClass(ist))
		}
		reconnects := budget != 0 && (budget < 0 || down < round)
		if budget == 0 {
			reconnects = false
		}
		if reconnects {
			if !sess.Health() {
				vsched.Failf("session is not healthy after the server became reachable again (%d dial attempts) | %s", attempts, ctxt)
			}
			if setid {
				if sess.ID() != wantID {
					vsched.Failf("user-assigned session id changed from %q to %q across the redial | %s", wantID, sess.ID(), ctxt)
				}
			} else if old := wantID; sess.ID() != old {
				// a default id follows the local address of the new connection; the old key must be gone
				wantID = sess.ID()
				if _, ok := cli.GetSession(old); ok {
					vsched.Failf("after the reconnect the session is still indexed under its previous default id %q (now %q) | %s", old, wantID, ctxt)
				}
			}
			if got, ok := cli.GetSession(wantID); !ok || got != sess {
				vsched.Failf("reconnected session is not indexed under its id | %s", ctxt)
			}
			if n, ids := cli.CountSession(), sessionsOf(cli); n != 1 || len(ids) != 1 {
				vsched.Failf("after the reconnect the client's index lists %d sessions (%v), exactly one is live | %s", n, ids, ctxt)
			}
			if rec.Count["postdial_redial"] < 1 {
				vsched.Failf("PostDial with isRedial=true did not run | %s", ctxt)
			}
			var r string
			if st := sess.Call(h, "c", &r).Status(); !st.OK() || r != "r:c" {
				vsched.Failf("call after the reconnect failed: %s | %s", world.StatStr(st), ctxt)
			}
			world.Counter("reconnected")
		} else {
			if !closedNotify(sess) {
				vsched.Failf("redial budget exhausted but the close notification has not fired | %s", ctxt)
			}
			if _, ok := cli.GetSession(wantID); ok {
				vsched.Failf("redial budget exhausted but the session is still indexed | %s", ctxt)
			}
			if n, ids := cli.CountSession(), sessionsOf(cli); n != 0 || len(ids) != 0 {
				vsched.Failf("redial budget exhausted but the client's index still lists %d sessions (%v) | %s", n, ids, ctxt)
			}
			before := vnet.DialCount(addr)
			var r string
			lst := sess.Call(h, "c", &r).Status()
			vsched.Quiesce()
			if lst.OK() {
				vsched.Failf("call on an ended session succeeded | %s", ctxt)
			}
			if !erpc.IsConnError(lst) && lst.Code() != erpc.CodeWriteFailed {
				vsched.Failf("call after the budget was exhausted failed with %s, want a connection error | %s", world.StatStr(lst), ctxt)
			}
			if extra := vnet.DialCount(addr) - before; budget >= 0 && extra > round {
				vsched.Failf("a later call triggered %d further dial attempts, more than one round of %d | %s", extra, round, ctxt)
			}
			world.Counter("exhausted")
		}
		// hooks fire at most once per stage and message, also when a write is retried after a redial
		seenHook := map[string]bool{}
		for _, t := range trace {
			if strings.Contains(t, "postdial") {
				continue
			}
			if seenHook[t] {
				vsched.Failf("hook fired twice for one message: %s | %s", t, ctxt)
			}
			seenHook[t] = true
		}
		if budget >= 0 && attempts > 3*round {
			vsched.Failf("%d dial attempts after one loss with a budget of %d | %s", attempts, budget, ctxt)
		}
		// repeated losses: the session that survived the first loss loses its new connection too
		for l := 2; l <= losses && reconnects; l++ {
			// the same availability window again: the first `down` attempts after this loss are refused, which
			// is within the budget of one round (otherwise the session would not have survived the first loss)
			rec.OnStage = nil
			delete(rec.Veto, "postdial_redial")
			base := vnet.DialCount(addr)
			vnet.DialHook = func(a string, attempt int) bool { return attempt-base <= down }
			redialsBefore := rec.Count["postdial_redial"]
			sc := serverConn()
			if sc == nil {
				vsched.Failf("harness: no live server-side connection before loss %d | %s", l, ctxt)
			}
			if l%2 == 0 {
				sc.Break()
			} else {
				sc.Close()
			}
			vsched.Quiesce()
			if !sess.Health() {
				vsched.Failf("session is not healthy after loss %d although the server is reachable | %s", l, ctxt)
			}
			if setid && sess.ID() != wantID {
				vsched.Failf("user-assigned session id changed from %q to %q across redial %d | %s", wantID, sess.ID(), l, ctxt)
			}
			if got, ok := cli.GetSession(sess.ID()); !ok || got != sess || cli.CountSession() != 1 {
				vsched.Failf("after loss %d the client's index does not list exactly the reconnected session (%v) | %s", l, sessionsOf(cli), ctxt)
			}
			if rec.Count["postdial_redial"] != redialsBefore+1 {
				vsched.Failf("loss %d: PostDial with isRedial=true ran %d times, want once | %s", l, rec.Count["postdial_redial"]-redialsBefore, ctxt)
			}
			var r string
			if st := sess.Call(h, "d", &r).Status(); !st.OK() || r != "r:d" {
				vsched.Failf("call after loss %d failed: %s | %s", l, world.StatStr(st), ctxt)
			}
			if closedNotify(sess) {
				vsched.Failf("close notification fired although the session reconnected after loss %d | %s", l, ctxt)
			}
			world.Counter("reconnected_again")
		}
		vsched.Logf("%s attempts=%d", ctxt, attempts)
	}
}

func init() { Sched["c13_revive"] = c13Revive }

// c13Revive: the redial budget is exhausted while the server is down; then the server comes back and a later
// operation (call or push, optionally through the secure plugin) redials from the write path and is re-sent.
// Oracles: the operation completes; every hook fires at most once per stage and message; an OK operation was
// delivered exactly once with the original argument.
func c13Revive(p Params) func() {
	budget := p.Int("budget", 1)
	op := p.Get("op", "call")
	sec := p.Get("secure", "0") == "1"
	return func() {
		begin()
		vsched.Tag("op=" + op)
		const addr = "10.0.0.1:9000"
		lis := vnet.Listen(addr)
		var srvPlugins, cliPlugins []erpc.Plugin
		if sec {
			srvPlugins = append(srvPlugins, secure.NewPlugin(9001, "0123456789abcdef"))
			cliPlugins = append(cliPlugins, secure.NewPlugin(9002, "0123456789abcdef"))
		}
		var gotCalls, gotPushes []string
		srv := world.NewPeer("json", srvPlugins...)
		h := srv.RouteCallFunc(func(ctx erpc.CallCtx, a *string) (*string, *erpc.Status) {
			gotCalls = append(gotCalls, *a)
			r := "r:" + *a
			return &r, nil
		})
		hp := srv.RoutePushFunc(func(ctx erpc.PushCtx, a *string) *erpc.Status {
			gotPushes = append(gotPushes, *a)
			return nil
		})
		vsched.Spawn("acceptloop", func() { erpc.VerifServeListener(srv, lis) })
		var trace []string
		rec := NewRec("crec", &trace)
		rec.Only = map[string]bool{"prewritecall": true, "postwritecall": true, "prewritepush": true, "postwritepush": true, "postreadreplyheader": true, "postreadreplybody": true}
		cliPlugins = append(cliPlugins, rec)
		cli := erpc.NewPeer(erpc.PeerConfig{DefaultBodyCodec: "json", RedialTimes: int32(budget), RedialInterval: time.Millisecond}, cliPlugins...)
		sess, st := cli.Dial(addr)
		if !st.OK() {
			vsched.Failf("initial dial failed: %v", st)
		}
		var r0 string
		if st := sess.Call(h, "warm", &r0).Status(); !st.OK() {
			vsched.Failf("warm-up call failed: %s", world.StatStr(st))
		}
		// the server goes away; every redial attempt is refused until the budget is exhausted
		vnet.DialHook = func(string, int) bool { return true }
		for _, x := range vnet.Conns() {
			if x.LocalAddr().String() == addr && !x.IsClosed() {
				x.Break()
			}
		}
		vsched.Quiesce()
		if !closedNotify(sess) {
			vsched.Failf("redial budget exhausted but the close notification has not fired")
		}
		// the server is reachable again
		vnet.DialHook = nil
		trace = nil
		gotCalls, gotPushes = nil, nil
		var settings []erpc.MessageSetting
		if sec {
			settings = append(settings, secure.WithSecureMeta())
		}
		arg := "payload-1234567890"
		var opStat *erpc.Status
		var res string
		if op == "push" {
			opStat = sess.Push(hp, &arg, settings...)
		} else {
			opStat = sess.Call(h, &arg, &res, settings...).Status()
		}
		vsched.Quiesce()
		if opStat.OK() {
			if op == "push" {
				if len(gotPushes) != 1 || gotPushes[0] != arg {
					vsched.Failf("push reported OK after the redial, but the handler received %q (want exactly one delivery of %q)", gotPushes, arg)
				}
			} else {
				if res != "r:"+arg || len(gotCalls) != 1 || gotCalls[0] != arg {
					vsched.Failf("call reported OK after the redial, but result %q / handler input %q do not match the argument %q", res, gotCalls, arg)
				}
			}
			if !sess.Health() {
				vsched.Failf("operation succeeded after the redial but the session is not healthy")
			}
			if got, ok := cli.GetSession(sess.ID()); !ok || got != sess || cli.CountSession() != 1 {
				vsched.Failf("operation succeeded after the redial but the index does not list exactly this session (count %d)", cli.CountSession())
			}
			world.Counter("revived")
		} else {
			if !erpc.IsConnError(opStat) && opStat.Code() != erpc.CodeWriteFailed {
				vsched.Failf("operation after the budget was exhausted failed with %s, want a connection error", world.StatStr(opStat))
			}
			if len(gotCalls)+len(gotPushes) != 0 {
				vsched.Failf("operation reported %s but was delivered to a handler", world.StatStr(opStat))
			}
			world.Counter("failed")
		}
		seen := map[string]bool{}
		for _, t := range trace {
			if seen[t] {
				vsched.Failf("hook fired twice for one message: %s | trace %v", t, trace)
			}
			seen[t] = true
		}
		vsched.Logf("op=%s st=%s", op, statClass(opStat))
	}
}
