package scen

import (
	"fmt"
	"time"

	erpc "github.com/henrylee2cn/erpc/v6"

	"verif/shim/vnet"
	"verif/shim/vsched"
	"verif/world"
)

func init() { Sched["c13"] = c13 }

// c13: a redial-enabled client session survives connection loss.
//
//	budget: RedialTimes (0, n, -1)
//	fault : idle | awaiting | write | twice
//	down  : number of dial attempts refused after the loss
func c13(p Params) func() {
	budget := p.Int("budget", 1)
	fault := p.Get("fault", "idle")
	down := p.Int("down", 0)
	setid := p.Get("setid", "1") == "1"
	hookReject := p.Get("hook", "0") == "1" // the unavailable attempts fail in the client's PostDial hook instead of at the network
	return func() {
		begin()
		if hookReject {
			vsched.Tag("fault=" + fault + " hook")
		} else {
			vsched.Tag("fault=" + fault)
		}
		const addr = "10.0.0.1:9000"
		lis := vnet.Listen(addr)
		gate := &world.Gate{}
		block := false
		srv := world.NewPeer("json")
		h := srv.RouteCallFunc(func(ctx erpc.CallCtx, a *string) (*string, *erpc.Status) {
			if block {
				gate.Wait()
			}
			r := "r:" + *a
			return &r, nil
		})
		vsched.SpawnDaemon("acceptloop", func() { erpc.VerifServeListener(srv, lis) })
		var trace []string
		rec := NewRec("crec", &trace)
		rec.Only = map[string]bool{"postdial": true, "postdial_redial": true}
		cli := erpc.NewPeer(erpc.PeerConfig{DefaultBodyCodec: "json", RedialTimes: int32(budget), RedialInterval: time.Millisecond}, rec)
		sess, st := cli.Dial(addr)
		if !st.OK() {
			vsched.Failf("initial dial failed: %v", st)
		}
		vsched.Quiesce()
		wantID := sess.ID()
		if setid {
			sess.SetID("user-1")
			wantID = "user-1"
		}
		var r0 string
		if st := sess.Call(h, "a", &r0).Status(); !st.OK() || r0 != "r:a" {
			vsched.Failf("call before the fault failed: %s", world.StatStr(st))
		}
		reqLen := 0
		for _, x := range vnet.Conns() {
			if x.RemoteAddr().String() == addr {
				reqLen = len(x.Written) // one request frame of the same size as the ones sent below
			}
		}
		dialsBefore := vnet.DialCount(addr)
		round := 1 + budget // attempts per round
		never := budget >= 0 && down >= round
		// the server is unreachable for the first `down` attempts after the loss; if that exhausts the first round it stays unreachable
		if hookReject {
			redials := 0
			rec.OnStage = func(stage string) {
				if stage == "postdial_redial" {
					redials++
					if never || redials <= down {
						rec.Veto["postdial_redial"] = erpc.NewStatus(erpc.CodeDialFailed, "redial handshake rejected", "")
					} else {
						delete(rec.Veto, "postdial_redial")
					}
				}
			}
		} else {
			vnet.DialHook = func(a string, attempt int) bool { return never || attempt-dialsBefore <= down }
		}
		serverConn := func() *vnet.Conn {
			var c *vnet.Conn
			srv.RangeSession(func(s erpc.Session) bool { return true })
			for _, x := range vnet.Conns() {
				if x.LocalAddr().String() == addr && !x.IsClosed() && !x.Broken() {
					c = x
				}
			}
			return c
		}
		ctxt := fmt.Sprintf("budget=%d fault=%s down=%d setid=%v", budget, fault, down, setid)
		var inflight erpc.CallCmd
		var inflightRes string
		switch fault {
		case "idle":
			serverConn().Break()
		case "rclose":
			serverConn().Close()
		case "awaiting":
			block = true
			caller := world.Go("caller", func() { inflight = sess.Call(h, "b", &inflightRes) })
			vsched.Quiesce() // the request is at the handler, which waits on the gate
			serverConn().Break()
			vsched.Join(caller)
			block = false
			gate.Open()
		case "write":
			// the connection dies while the request is being written (detected by the writer)
			c := serverConn().Peer()
			k := vsched.Choose(reqLen, "cutoffset")
			c.CutAfter(len(c.Written) + k)
			caller := world.Go("caller", func() { inflight = sess.Call(h, "b", &inflightRes) })
			vsched.Join(caller)
		case "both":
			// reader and writer notice the loss concurrently
			sc := serverConn()
			caller := world.Go("caller", func() { inflight = sess.Call(h, "b", &inflightRes) })
			breaker := world.Go("breaker", func() { sc.Break() })
			vsched.Join(caller)
			vsched.Join(breaker)
		}
		vsched.Quiesce()
		attempts := vnet.DialCount(addr) - dialsBefore
		if inflight != nil {
			if !world.IsDone(inflight) {
				vsched.Failf("the call in flight at the loss never completed | %s", ctxt)
			}
			ist := inflight.Status()
			if ist.OK() && inflightRes != "r:b" {
				vsched.Failf("in-flight call OK with result %q | %s", inflightRes, ctxt)
			}
			vsched.Logf("inflight=%s", statClass(ist))
		}
		reconnects := budget != 0 && (budget < 0 || down < round)
		if budget == 0 {
			reconnects = false
		}
		if reconnects {
			if !sess.Health() {
				vsched.Failf("session is not healthy after the server became reachable again (%d dial attempts) | %s", attempts, ctxt)
			}
			if sess.ID() != wantID {
				vsched.Failf("session id changed from %q to %q across the redial | %s", wantID, sess.ID(), ctxt)
			}
			if got, ok := cli.GetSession(wantID); !ok || got != sess {
				vsched.Failf("reconnected session is not indexed under its id | %s", ctxt)
			}
			if rec.Count["postdial_redial"] < 1 {
				vsched.Failf("PostDial with isRedial=true did not run | %s", ctxt)
			}
			var r string
			if st := sess.Call(h, "c", &r).Status(); !st.OK() || r != "r:c" {
				vsched.Failf("call after the reconnect failed: %s | %s", world.StatStr(st), ctxt)
			}
			world.Counter("reconnected")
		} else {
			if !closedNotify(sess) {
				vsched.Failf("redial budget exhausted but the close notification has not fired | %s", ctxt)
			}
			if _, ok := cli.GetSession(wantID); ok {
				vsched.Failf("redial budget exhausted but the session is still indexed | %s", ctxt)
			}
			before := vnet.DialCount(addr)
			var r string
			lst := sess.Call(h, "c", &r).Status()
			vsched.Quiesce()
			if lst.OK() {
				vsched.Failf("call on an ended session succeeded | %s", ctxt)
			}
			if !erpc.IsConnError(lst) && lst.Code() != erpc.CodeWriteFailed {
				vsched.Failf("call after the budget was exhausted failed with %s, want a connection error | %s", world.StatStr(lst), ctxt)
			}
			if extra := vnet.DialCount(addr) - before; budget >= 0 && extra > round {
				vsched.Failf("a later call triggered %d further dial attempts, more than one round of %d | %s", extra, round, ctxt)
			}
			world.Counter("exhausted")
		}
		if budget >= 0 && attempts > 3*round {
			vsched.Failf("%d dial attempts after one loss with a budget of %d | %s", attempts, budget, ctxt)
		}
		vsched.Logf("%s attempts=%d", ctxt, attempts)
	}
}
