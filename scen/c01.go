package scen

import (
	"fmt"
	"sort"
	"strings"

	erpc "github.com/henrylee2cn/erpc/v6"
	"github.com/henrylee2cn/erpc/v6/plugin/secure"
	"github.com/henrylee2cn/erpc/v6/xfer/gzip"
	"github.com/henrylee2cn/erpc/v6/xfer/md5"

	"verif/shim/vsched"
	"verif/world"
)

func init() {
	Sched["c01"] = c01
	gzip.Reg('g', "gzip-5", 5)
	md5.Reg('m', "md5")
}

// Msg is the struct body used with the json/xml/form codecs.
type Msg struct {
	Tag string `json:"tag" xml:"tag" form:"tag"`
	Pad string `json:"pad" xml:"pad" form:"pad"`
}

// NStr is a named string type (plain codec).
type NStr string

type bodyKind struct {
	codec  string
	mk     func(tag, pad string) interface{}
	newRes func() interface{}
	get    func(v interface{}) (string, string)
}

func split2(s string) (string, string) {
	i := strings.IndexByte(s, '|')
	if i < 0 {
		return s, ""
	}
	return s[:i], s[i+1:]
}

func bodyFor(kind string) bodyKind {
	switch kind {
	case "json", "xml", "form":
		return bodyKind{codec: kind,
			mk:     func(t, p string) interface{} { return &Msg{Tag: t, Pad: p} },
			newRes: func() interface{} { return new(Msg) },
			get:    func(v interface{}) (string, string) { m := v.(*Msg); return m.Tag, m.Pad }}
	case "plain":
		return bodyKind{codec: "plain",
			mk:     func(t, p string) interface{} { s := t + "|" + p; return &s },
			newRes: func() interface{} { return new(string) },
			get:    func(v interface{}) (string, string) { return split2(*v.(*string)) }}
	case "plainnamed":
		return bodyKind{codec: "plain",
			mk:     func(t, p string) interface{} { s := NStr(t + "|" + p); return &s },
			newRes: func() interface{} { return new(NStr) },
			get:    func(v interface{}) (string, string) { return split2(string(*v.(*NStr))) }}
	case "protobuf":
		return bodyKind{codec: "protobuf",
			mk:     func(t, p string) interface{} { return &secure.Encrypt{Cipherversion: t, Ciphertext: p} },
			newRes: func() interface{} { return new(secure.Encrypt) },
			get:    func(v interface{}) (string, string) { m := v.(*secure.Encrypt); return m.Cipherversion, m.Ciphertext }}
	}
	panic("unknown body kind " + kind)
}

type c01state struct {
	bk      bodyKind
	handled []string // tags seen by call handlers
	pushed  []string // tags seen by push handlers
	who     string
	ctl     bool // handlers are methods of struct controllers
}

// see runs the shared handler-side oracle: body tag and metadata tag agree, and neither changes while the handler runs.
func (s *c01state) see(kind string, body interface{}, meta func(string) []byte, method func() string) (string, string) {
	m0 := method()
	defer func() {
		if m1 := method(); m1 != m0 {
			vsched.Failf("%s handler (%s): the service method of its request changed from %q to %q while the handler was running", kind, s.who, m0, m1)
		}
	}()
	tag, pad := s.bk.get(body)
	mt := string(meta(c01TagKey))
	if mt != tag {
		vsched.Failf("%s handler (%s) got body tag %q but metadata tag %q: bytes of another message are visible", kind, s.who, tag, mt)
	}
	if want := padFor(tag); pad != want {
		vsched.Failf("%s handler (%s) got pad %q for tag %q, sender supplied %q", kind, s.who, pad, tag, want)
	}
	vsched.Yield()
	tag2, pad2 := s.bk.get(body)
	mt2 := string(meta(c01TagKey))
	if tag2 != tag || pad2 != pad || mt2 != mt {
		vsched.Failf("%s handler (%s) input changed while the handler was running: (%q,%q,%q) -> (%q,%q,%q)", kind, s.who, tag, pad, mt, tag2, pad2, mt2)
	}
	return tag, pad
}

// pads have different lengths per tag so that buffer reuse would show
func padFor(tag string) string {
	n := 1
	if len(tag) > 0 {
		n = 1 + int(tag[len(tag)-1]-'0')*7
	}
	return strings.Repeat(tag[len(tag)-1:], n)
}

// Struct controllers: the router instantiates the receiver per invocation (from a pool) and points its embedded
// context at the running request. The handlers reach the scenario state through a package variable.
var c01CtlState *c01state

type C01Ctl struct{ erpc.CallCtx }

func (c *C01Ctl) Echo(arg *Msg) (*Msg, *erpc.Status) {
	s := c01CtlState
	t, pd := s.see("call", arg, c.PeekMeta, c.ServiceMethod)
	s.handled = append(s.handled, t)
	c.SetMeta(c01TagKey, t)
	return &Msg{Tag: t, Pad: "r:" + pd}, nil
}

type C01PushCtl struct{ erpc.PushCtx }

func (c *C01PushCtl) Note(arg *Msg) *erpc.Status {
	s := c01CtlState
	t, _ := s.see("push", arg, c.PeekMeta, c.ServiceMethod)
	s.pushed = append(s.pushed, t)
	return nil
}

func (s *c01state) register(p erpc.Peer) (call, push string) {
	if s.ctl {
		c01CtlState = s
		return p.RouteCall(new(C01Ctl))[0], p.RoutePush(new(C01PushCtl))[0]
	}
	switch s.bk.codec + ":" + fmt.Sprintf("%T", s.bk.newRes()) {
	case "json:*scen.Msg", "xml:*scen.Msg", "form:*scen.Msg":
		call = p.RouteCallFunc(func(ctx erpc.CallCtx, arg *Msg) (*Msg, *erpc.Status) {
			t, pd := s.see("call", arg, ctx.PeekMeta, ctx.ServiceMethod)
			s.handled = append(s.handled, t)
			ctx.SetMeta(c01TagKey, t)
			return &Msg{Tag: t, Pad: "r:" + pd}, nil
		})
		push = p.RoutePushFunc(func(ctx erpc.PushCtx, arg *Msg) *erpc.Status {
			t, _ := s.see("push", arg, ctx.PeekMeta, ctx.ServiceMethod)
			s.pushed = append(s.pushed, t)
			return nil
		})
	case "plain:*string":
		call = p.RouteCallFunc(func(ctx erpc.CallCtx, arg *string) (*string, *erpc.Status) {
			t, pd := s.see("call", arg, ctx.PeekMeta, ctx.ServiceMethod)
			s.handled = append(s.handled, t)
			ctx.SetMeta(c01TagKey, t)
			r := t + "|r:" + pd
			return &r, nil
		})
		push = p.RoutePushFunc(func(ctx erpc.PushCtx, arg *string) *erpc.Status {
			t, _ := s.see("push", arg, ctx.PeekMeta, ctx.ServiceMethod)
			s.pushed = append(s.pushed, t)
			return nil
		})
	case "plain:*scen.NStr":
		call = p.RouteCallFunc(func(ctx erpc.CallCtx, arg *NStr) (*NStr, *erpc.Status) {
			t, pd := s.see("call", arg, ctx.PeekMeta, ctx.ServiceMethod)
			s.handled = append(s.handled, t)
			ctx.SetMeta(c01TagKey, t)
			r := NStr(t + "|r:" + pd)
			return &r, nil
		})
		push = p.RoutePushFunc(func(ctx erpc.PushCtx, arg *NStr) *erpc.Status {
			t, _ := s.see("push", arg, ctx.PeekMeta, ctx.ServiceMethod)
			s.pushed = append(s.pushed, t)
			return nil
		})
	case "protobuf:*secure.Encrypt":
		call = p.RouteCallFunc(func(ctx erpc.CallCtx, arg *secure.Encrypt) (*secure.Encrypt, *erpc.Status) {
			t, pd := s.see("call", arg, ctx.PeekMeta, ctx.ServiceMethod)
			s.handled = append(s.handled, t)
			ctx.SetMeta(c01TagKey, t)
			return &secure.Encrypt{Cipherversion: t, Ciphertext: "r:" + pd}, nil
		})
		push = p.RoutePushFunc(func(ctx erpc.PushCtx, arg *secure.Encrypt) *erpc.Status {
			t, _ := s.see("push", arg, ctx.PeekMeta, ctx.ServiceMethod)
			s.pushed = append(s.pushed, t)
			return nil
		})
	default:
		panic("no handlers for " + s.bk.codec)
	}
	return
}

func pipeSetting(pipe string) erpc.MessageSetting {
	if pipe == "" || pipe == "none" {
		return nil
	}
	return erpc.WithXferPipe([]byte(pipe)...)
}

// c01: concurrent calls/pushes must each see exactly their own data.
//
//	shape=S1: `k` client threads on one session; S2: + one server-side thread calling the client; S3: two sessions.
//	ops per thread: op=call | callpush | async
//
// c01TagKey is the metadata key that carries the tag (an HTTP header field name for the HTTP-style protocol).
var c01TagKey = "tag"

func c01(p Params) func() {
	proto := p.Get("proto", "raw")
	if proto == "http" {
		c01TagKey = "X-Tag"
	}
	body := p.Get("body", "json")
	pipe := p.Get("pipe", "none")
	shape := p.Get("shape", "S1")
	k := p.Int("k", 2)
	op := p.Get("op", "call")
	ctl := p.Get("ctl", "0") == "1" // server handlers registered as struct controllers (json-like bodies only)
	return func() {
		begin()
		bk := bodyFor(body)
		pf := world.Proto(proto)
		srvS := &c01state{bk: bk, who: "server", ctl: ctl}
		cliS := &c01state{bk: bk, who: "client"}
		srv := world.NewPeer(bk.codec)
		cli := world.NewPeer(bk.codec)
		sCall, sPush := srvS.register(srv)
		cCall, _ := cliS.register(cli)
		cs, ss, _ := world.Connect(cli, srv, pf)
		sessions := []erpc.Session{cs}
		if shape == "S3" {
			cs2, _, _ := world.Connect(cli, srv, pf)
			sessions = append(sessions, cs2)
		}
		var sentCalls, sentPush []string
		var ths []*vsched.Thread
		doCall := func(sess erpc.Session, method, tag string, async bool) {
			res := bk.newRes()
			settings := []erpc.MessageSetting{erpc.WithAddMeta(c01TagKey, tag)}
			if ps := pipeSetting(pipe); ps != nil {
				settings = append(settings, ps)
			}
			var cmd erpc.CallCmd
			if async {
				cmd = sess.AsyncCall(method, bk.mk(tag, padFor(tag)), res, make(chan erpc.CallCmd, 2), settings...)
				world.WaitDone(cmd)
			} else {
				cmd = sess.Call(method, bk.mk(tag, padFor(tag)), res, settings...)
			}
			st := cmd.Status()
			if !st.OK() {
				vsched.Failf("call %s failed although no fault was injected: %s", tag, world.StatStr(st))
			}
			rt, rp := bk.get(res)
			if rt != tag || rp != "r:"+padFor(tag) {
				vsched.Failf("call %s got the result (%q,%q): not the reply to its own arguments", tag, rt, rp)
			}
			if mt := string(cmd.InputMeta().Peek(c01TagKey)); mt != tag {
				vsched.Failf("call %s got reply metadata tag %q", tag, mt)
			}
		}
		n := 0
		for si, sess := range sessions {
			if shape == "SEQ" {
				break
			}
			per := k
			if shape == "S3" {
				per = 1
			}
			for i := 0; i < per; i++ {
				n++
				tag := fmt.Sprintf("c%d", n)
				sess := sess
				sentCalls = append(sentCalls, tag)
				ptag := fmt.Sprintf("p%d", n)
				if op == "callpush" {
					sentPush = append(sentPush, ptag)
				}
				ths = append(ths, world.Go(fmt.Sprintf("caller%d.%d", si, i), func() {
					doCall(sess, sCall, tag, op == "async")
					if op == "callpush" {
						settings := []erpc.MessageSetting{erpc.WithAddMeta(c01TagKey, ptag)}
						if ps := pipeSetting(pipe); ps != nil {
							settings = append(settings, ps)
						}
						if st := sess.Push(sPush, bk.mk(ptag, padFor(ptag)), settings...); !st.OK() {
							vsched.Failf("push %s failed: %s", ptag, world.StatStr(st))
						}
					}
				}))
			}
		}
		if shape == "SEQ" {
			// sequential calls on one session; every completed call is kept and re-checked after the later ones
			ths = nil
			sentCalls = nil
			type kept struct {
				cmd erpc.CallCmd
				res interface{}
				tag string
			}
			var all []kept
			for i := 0; i < k; i++ {
				tag := fmt.Sprintf("c%d", i+1)
				sentCalls = append(sentCalls, tag)
				res := bk.newRes()
				settings := []erpc.MessageSetting{erpc.WithAddMeta(c01TagKey, tag)}
				if ps := pipeSetting(pipe); ps != nil {
					settings = append(settings, ps)
				}
				cmd := cs.Call(sCall, bk.mk(tag, padFor(tag)), res, settings...)
				all = append(all, kept{cmd, res, tag})
			}
			vsched.Quiesce()
			for _, kp := range all {
				if st := kp.cmd.Status(); !st.OK() {
					vsched.Failf("call %s failed although no fault was injected: %s", kp.tag, world.StatStr(st))
				}
				rt, rp := bk.get(kp.res)
				if rt != kp.tag || rp != "r:"+padFor(kp.tag) {
					vsched.Failf("after later calls completed, call %s holds the result (%q,%q): not the reply to its own arguments", kp.tag, rt, rp)
				}
				if mt := string(kp.cmd.InputMeta().Peek(c01TagKey)); mt != kp.tag {
					vsched.Failf("after later calls completed, the reply metadata of call %s reads tag %q", kp.tag, mt)
				}
			}
		}
		var sentBack []string
		if shape == "S2" {
			sentBack = append(sentBack, "b9")
			ths = append(ths, world.Go("srvcaller", func() { doCall(ss, cCall, "b9", false) }))
		}
		joinAll(ths)
		vsched.Quiesce()
		eq := func(what string, got, want []string) {
			g := append([]string(nil), got...)
			w := append([]string(nil), want...)
			sort.Strings(g)
			sort.Strings(w)
			if fmt.Sprint(g) != fmt.Sprint(w) {
				vsched.Failf("%s: handlers saw %v, senders sent %v", what, g, w)
			}
		}
		eq("server call handlers", srvS.handled, sentCalls)
		eq("server push handlers", srvS.pushed, sentPush)
		eq("client call handlers", cliS.handled, sentBack)
		vsched.Logf("ok")
	}
}
