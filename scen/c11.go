package scen

import (
	"bytes"
	"fmt"
	"math"
	"reflect"
	"strings"
	"unicode/utf8"

	"git.apache.org/thrift.git/lib/go/thrift"
	"github.com/henrylee2cn/erpc/v6/codec"
	wspb "github.com/henrylee2cn/erpc/v6/mixer/websocket/pbSubProto/pb"
	"github.com/henrylee2cn/erpc/v6/plugin/secure"
	"github.com/henrylee2cn/erpc/v6/proto/pbproto/pb"
)

func init() {
	Enum["c11_roundtrip"] = c11Roundtrip
	Enum["c11_garbage"] = c11Garbage
}

// ---- type zoo ----

type NBytes []byte

type JInner struct {
	X string
	Y int
}

type JStruct struct {
	B   bool
	I8  int8
	I64 int64
	U8  uint8
	U64 uint64
	F32 float32
	F64 float64
	S   string
	Bs  []byte
	Sl  []int
	SS  []string
	Arr [2]int
	N   JInner
	P   *int
}

type XStruct struct {
	B  bool    `xml:"b"`
	I  int64   `xml:"i"`
	U  uint64  `xml:"u"`
	F  float64 `xml:"f"`
	S  string  `xml:"s"`
	Sl []int   `xml:"sl"`
	N  JInner  `xml:"n"` // fixed-size arrays are outside encoding/xml's supported domain
}

type FInner struct {
	Q string `form:"q"`
}

type FStruct struct {
	B   bool     `form:"b"`
	I   int      `form:"i"`
	U   uint     `form:"u"`
	F   float64  `form:"f"`
	S   string   `form:"s"`
	Sl  []string `form:"sl"`
	SlI []int    `form:"sli"`
	Arr [3]int   `form:"arr"`
	N   FInner
}

// FSeq: sequence fields of the remaining element kinds (bytes included: a form has one value per element).
type FSeq struct {
	By  []byte    `form:"by"`
	U16 []uint16  `form:"u16"`
	I8  [2]int8   `form:"i8"`
	Fl  []float64 `form:"fl"`
	Bo  []bool    `form:"bo"`
	N   FSeqInner
}

type FSeqInner struct {
	Raw []uint8 `form:"raw"`
}

// TStr is a hand-written thrift struct {1: string a, 2: i32 b, 3: binary c}.
type TStr struct {
	A string
	B int32
	C []byte
}

func (t *TStr) Write(p thrift.TProtocol) error {
	if err := p.WriteStructBegin("TStr"); err != nil {
		return err
	}
	p.WriteFieldBegin("a", thrift.STRING, 1)
	p.WriteString(t.A)
	p.WriteFieldEnd()
	p.WriteFieldBegin("b", thrift.I32, 2)
	p.WriteI32(t.B)
	p.WriteFieldEnd()
	p.WriteFieldBegin("c", thrift.STRING, 3)
	p.WriteBinary(t.C)
	p.WriteFieldEnd()
	if err := p.WriteFieldStop(); err != nil {
		return err
	}
	return p.WriteStructEnd()
}

func (t *TStr) Read(p thrift.TProtocol) error {
	if _, err := p.ReadStructBegin(); err != nil {
		return err
	}
	for {
		_, typ, id, err := p.ReadFieldBegin()
		if err != nil {
			return err
		}
		if typ == thrift.STOP {
			break
		}
		switch {
		case id == 1 && typ == thrift.STRING:
			if t.A, err = p.ReadString(); err != nil {
				return err
			}
		case id == 2 && typ == thrift.I32:
			if t.B, err = p.ReadI32(); err != nil {
				return err
			}
		case id == 3 && typ == thrift.STRING:
			if t.C, err = p.ReadBinary(); err != nil {
				return err
			}
		default:
			if err = p.Skip(typ); err != nil {
				return err
			}
		}
		if err = p.ReadFieldEnd(); err != nil {
			return err
		}
	}
	return p.ReadStructEnd()
}

// normalize: nil slices and empty slices are the same value for the round-trip oracle
func normalize(v reflect.Value) {
	switch v.Kind() {
	case reflect.Ptr:
		if !v.IsNil() {
			normalize(v.Elem())
		}
	case reflect.Struct:
		for i := 0; i < v.NumField(); i++ {
			if v.Field(i).CanSet() {
				if strings.HasPrefix(v.Type().Field(i).Name, "XXX_") {
					v.Field(i).Set(reflect.Zero(v.Field(i).Type())) // generated bookkeeping, not part of the value
					continue
				}
				normalize(v.Field(i))
			}
		}
	case reflect.Slice:
		if v.Len() == 0 && v.CanSet() {
			v.Set(reflect.Zero(v.Type()))
		}
		for i := 0; i < v.Len(); i++ {
			normalize(v.Index(i))
		}
	case reflect.Array:
		for i := 0; i < v.Len(); i++ {
			normalize(v.Index(i))
		}
	}
}

var dirtyDest = map[reflect.Type][]byte{}

type retainedEncoding struct{ returned, snapshot []byte }

var lastEncoding = map[string]retainedEncoding{}

func rtCase(c *EnumCtx, cd codec.Codec, class string, val interface{}) {
	if !c.Mine() {
		return
	}
	// val is a pointer to the value
	rv := reflect.ValueOf(val)
	name := fmt.Sprintf("%s %T %+v", cd.Name(), val, trimVal(rv.Elem().Interface()))
	c.Case(cd.Name()+"/"+class, name)
	defer func() {
		if r := recover(); r != nil {
			c.Fail(fmt.Sprintf("%s: round trip panics (%s)", cd.Name(), class), name, fmt.Sprint(r))
		}
	}()
	enc, err := cd.Marshal(val)
	if err != nil {
		c.Fail(fmt.Sprintf("%s: marshal fails (%s)", cd.Name(), class), name, err.Error())
		return
	}
	// an encoding handed out earlier must not change when another value is marshalled (the encoder may not
	// keep using the buffer it returned)
	if prev, ok := lastEncoding[cd.Name()]; ok && !bytes.Equal(prev.returned, prev.snapshot) {
		c.Fail(fmt.Sprintf("%s: an encoding returned by Marshal changed when a later value was marshalled", cd.Name()), name, fmt.Sprintf("earlier encoding %q now reads %q", trimB(prev.snapshot), trimB(prev.returned)))
		delete(lastEncoding, cd.Name())
		return
	}
	lastEncoding[cd.Name()] = retainedEncoding{returned: enc, snapshot: append([]byte{}, enc...)}
	enc = append([]byte{}, enc...)
	dst := reflect.New(rv.Elem().Type())
	if err := cd.Unmarshal(enc, dst.Interface()); err != nil {
		c.Fail(fmt.Sprintf("%s: unmarshal of own encoding fails (%s)", cd.Name(), class), name, fmt.Sprintf("%v (encoding %q)", err, trimB(enc)))
		return
	}
	a := reflect.New(rv.Elem().Type())
	a.Elem().Set(rv.Elem())
	normalize(a)
	normalize(dst)
	if !reflect.DeepEqual(a.Elem().Interface(), dst.Elem().Interface()) {
		c.Fail(fmt.Sprintf("%s: decoded value differs from the encoded one (%s)", cd.Name(), class), name, fmt.Sprintf("got %+v via %q", trimVal(dst.Elem().Interface()), trimB(enc)))
		return
	}
	// a destination that already holds another (longer) value must be overwritten, not merged:
	// checked for the codecs whose decoders define that (plain, protobuf, thrift scalars/bytes/strings)
	if n := cd.Name(); n == "plain" || n == "protobuf" {
		if prev, ok := dirtyDest[rv.Elem().Type()]; ok {
			d2 := reflect.New(rv.Elem().Type())
			if err := cd.Unmarshal(prev, d2.Interface()); err == nil {
				if err := cd.Unmarshal(enc, d2.Interface()); err == nil {
					normalize(d2)
					if !reflect.DeepEqual(a.Elem().Interface(), d2.Elem().Interface()) {
						c.Fail(fmt.Sprintf("%s: decoding into a destination that held another value does not yield the encoded value (%s)", cd.Name(), class), name, fmt.Sprintf("got %+v via %q after %q", trimVal(d2.Elem().Interface()), trimB(enc), trimB(prev)))
					}
				}
			}
		}
		if prev, ok := dirtyDest[rv.Elem().Type()]; !ok || len(enc) > len(prev) {
			dirtyDest[rv.Elem().Type()] = enc // the longest encoding seen for this type
		}
		// re-checked at the end of the enumeration against the longest encoding of the whole zoo, so that the
		// verdict does not depend on the order of the alphabet (a zero value decoded over a non-zero one)
		dirtyCases = append(dirtyCases, dirtyCase{cd: cd, class: class, name: name, enc: enc, want: a.Elem().Interface(), typ: rv.Elem().Type()})
	}
}

type dirtyCase struct {
	cd          codec.Codec
	class, name string
	enc         []byte
	want        interface{}
	typ         reflect.Type
}

var dirtyCases []dirtyCase

// dirtyFinal decodes every value of the zoo into a destination that holds the longest-encoded value of its type.
func dirtyFinal(c *EnumCtx) {
	for _, dc := range dirtyCases {
		prev, ok := dirtyDest[dc.typ]
		if !ok || bytes.Equal(prev, dc.enc) {
			continue
		}
		c.Case(dc.cd.Name()+"/dirty-"+dc.class, dc.name)
		func() {
			defer func() {
				if r := recover(); r != nil {
					c.Fail(fmt.Sprintf("%s: decoding into a used destination panics (%s)", dc.cd.Name(), dc.class), dc.name, fmt.Sprint(r))
				}
			}()
			d2 := reflect.New(dc.typ)
			if err := dc.cd.Unmarshal(prev, d2.Interface()); err != nil {
				return
			}
			if err := dc.cd.Unmarshal(dc.enc, d2.Interface()); err != nil {
				return
			}
			normalize(d2)
			if !reflect.DeepEqual(dc.want, d2.Elem().Interface()) {
				c.Fail(fmt.Sprintf("%s: decoding into a destination that held another value does not yield the encoded value (%s)", dc.cd.Name(), dc.class), dc.name, fmt.Sprintf("got %+v via %q after %q", trimVal(d2.Elem().Interface()), trimB(dc.enc), trimB(prev)))
			}
		}()
	}
	dirtyCases = nil
}

func trimB(b []byte) []byte {
	if len(b) > 80 {
		return b[:80]
	}
	return b
}

func trimVal(v interface{}) string {
	s := fmt.Sprintf("%+v", v)
	if len(s) > 160 {
		s = s[:160] + "..."
	}
	return s
}

func c11Strings(validUTF8 bool, xmlSafe bool) []string {
	out := []string{"", "a", "ab", "abc", strings.Repeat("x", 17), "a b", "a&b=c", "%zz", "+", "\"q\"", "\\", "é", "日本", "a\nb"}
	for i := 0; i < 256; i++ {
		s := string([]byte{byte(i)})
		if validUTF8 && !utf8.ValidString(s) {
			continue
		}
		if xmlSafe && (i < 0x20 && i != '\t' && i != '\n') {
			continue
		}
		out = append(out, s)
	}
	return out
}

func c11Roundtrip(c *EnumCtx) {
	begin()
	get := func(name string) codec.Codec {
		cd, err := codec.GetByName(name)
		if err != nil {
			panic(err)
		}
		return cd
	}
	ints := []int64{0, 1, -1, math.MaxInt8, math.MinInt8, math.MaxInt64, math.MinInt64}
	uints := []uint64{0, 1, math.MaxUint8, math.MaxUint64}
	floats := []float64{0, 1.5, -1.5, math.MaxFloat64, -math.MaxFloat64, math.SmallestNonzeroFloat64, 1e-7, 123456789.125}
	// ---- plain ----
	pl := get("plain")
	for _, b := range []bool{true, false} {
		v := b
		rtCase(c, pl, "bool", &v)
	}
	for _, i := range ints {
		v := i
		rtCase(c, pl, "int64", &v)
		if i >= math.MinInt8 && i <= math.MaxInt8 {
			v8 := int8(i)
			rtCase(c, pl, "int8", &v8)
		}
		vi := int(i)
		rtCase(c, pl, "int", &vi)
	}
	for _, u := range uints {
		v := u
		rtCase(c, pl, "uint64", &v)
		if u <= math.MaxUint8 {
			v8 := uint8(u)
			rtCase(c, pl, "uint8", &v8)
		}
	}
	for _, f := range floats {
		v := f
		rtCase(c, pl, "float64", &v)
		v32 := float32(f)
		if !math.IsInf(float64(v32), 0) {
			rtCase(c, pl, "float32", &v32)
		}
	}
	for _, s := range c11Strings(false, false) {
		v := s
		rtCase(c, pl, "string", &v)
		nv := NStr(s)
		rtCase(c, pl, "namedstring", &nv)
		bv := []byte(s)
		rtCase(c, pl, "bytes", &bv)
		nb := NBytes(s)
		rtCase(c, pl, "namedbytes", &nb)
	}
	// ---- json ----
	js := get("json")
	one := 1
	for _, s := range c11Strings(true, false) {
		for _, i := range []int64{0, math.MinInt64, math.MaxInt64} {
			for _, sl := range [][]int{nil, {1}, {1, 2, 3}} {
				v := JStruct{B: i != 0, I8: int8(i), I64: i, U8: uint8(i), U64: uint64(i), F32: 1.5, F64: float64(i) / 3, S: s, Bs: []byte(s), Sl: sl, SS: []string{s, "z"}, Arr: [2]int{int(i), 7}, N: JInner{X: s, Y: len(sl)}}
				if len(sl) == 1 {
					v.P = &one
				}
				rtCase(c, js, "struct", &v)
			}
		}
	}
	for _, f := range floats {
		v := JStruct{F64: f, F32: float32(f / 1e300)}
		rtCase(c, js, "floats", &v)
	}
	// ---- xml ----
	xm := get("xml")
	for _, s := range c11Strings(true, true) {
		if strings.ContainsAny(s, "\r") {
			continue
		}
		for _, i := range []int64{0, math.MinInt64, math.MaxInt64} {
			for _, sl := range [][]int{nil, {1}, {1, 2, 3}} {
				v := XStruct{B: i != 0, I: i, U: uint64(i), F: float64(i) / 3, S: s, Sl: sl, N: JInner{X: s, Y: 3}}
				rtCase(c, xm, "struct", &v)
			}
		}
	}
	// ---- form ----
	fm := get("form")
	for _, s := range c11Strings(false, false) {
		for _, i := range []int{0, math.MinInt64, math.MaxInt64} {
			v := FStruct{B: i != 0, I: i, U: uint(i), F: float64(i) / 3, S: s, N: FInner{Q: s}}
			rtCase(c, fm, "scalars", &v)
		}
	}
	for _, sl := range [][]string{nil, {"a"}, {"a", "b"}, {"a", "b", "c"}, {"", "x", ""}, {"b", "a", "b"}} {
		for _, sli := range [][]int{nil, {1}, {1, 2}, {3, 2, 1}} {
			for _, arr := range [][3]int{{0, 0, 0}, {1, 2, 3}, {3, 3, 1}} {
				v := FStruct{Sl: sl, SlI: sli, Arr: arr}
				rtCase(c, fm, "sequences", &v)
			}
		}
	}
	for _, by := range [][]byte{nil, {0}, {12}, []byte("12"), {255, 0, 7}, []byte("a b&c=d")} {
		for _, u := range [][]uint16{nil, {0}, {65535, 1}} {
			for _, fl := range [][]float64{nil, {1.5}, {-0.25, 1e21}} {
				v := FSeq{By: by, U16: u, I8: [2]int8{-128, 127}, Fl: fl, Bo: []bool{true, false}, N: FSeqInner{Raw: by}}
				rtCase(c, fm, "sequences2", &v)
			}
		}
	}
	// ---- protobuf ----
	pbc := get("protobuf")
	for _, s := range c11Strings(true, false) {
		v := secure.Encrypt{Cipherversion: s, Ciphertext: s + s}
		rtCase(c, pbc, "strings", &v)
		for _, i := range []int32{0, 1, -1, math.MaxInt32, math.MinInt32} {
			p := pb.Payload{Seq: i, Mtype: i, ServiceMethod: s, Status: []byte(s), Meta: []byte(s + "m"), BodyCodec: i, Body: []byte(s)}
			rtCase(c, pbc, "payload", &p)
		}
	}
	// the websocket sub-protocol's payload message (a generated type with its own Marshal/Unmarshal methods)
	for _, s := range []string{"", "a", "/a/b", strings.Repeat("x", 17), "é"} {
		for _, i := range []int32{0, 1, -1, math.MaxInt32, math.MinInt32} {
			for _, b := range [][]byte{nil, {0}, []byte("body"), bytes.Repeat([]byte{0xff}, 17)} {
				p := wspb.Payload{Seq: i, Mtype: i, ServiceMethod: s, Meta: []byte(s), BodyCodec: i, Body: b, XferPipe: b}
				rtCase(c, pbc, "wspayload", &p)
			}
		}
	}
	// ---- thrift ----
	th := get("thrift")
	for _, s := range c11Strings(false, false) {
		for _, i := range []int32{0, 1, -1, math.MaxInt32, math.MinInt32} {
			v := TStr{A: s, B: i, C: []byte(s + "c")}
			rtCase(c, th, "struct", &v)
		}
	}
	dirtyFinal(c)
}

type guarded struct {
	G1 [16]byte
	V  interface{}
	G2 [16]byte
}

var c11Alphabets = map[string][]string{
	"json":     {"{", "}", "[", "]", "\"", ":", ",", "1", "a", "\\", "-", "n", "."},
	"xml":      {"<", ">", "/", "a", "=", "\"", "&", ";", " ", "!", "?", "1"},
	"form":     {"a", "=", "&", "%", "1", "z", "+", ";", "b", "-"},
	"plain":    {"1", "-", ".", "e", "t", "a", "\x00", "\xff", "9", "+"},
	"protobuf": {"\x00", "\x01", "\x08", "\x0a", "\x12", "\x7f", "\x80", "\xff", "\x02", "\x1a"},
	"thrift":   {"\x00", "\x01", "\x0b", "\x08", "\x02", "\x7f", "\x80", "\xff", "\x0c", "\x0f"},
}

func c11Dests(name string) []func() interface{} {
	switch name {
	case "json":
		return []func() interface{}{func() interface{} { return new(JStruct) }, func() interface{} { return new([]int) }, func() interface{} { return new(map[string]int) }, func() interface{} { return new(string) }, func() interface{} { return new([2]int) }, func() interface{} { return new(interface{}) }}
	case "xml":
		return []func() interface{}{func() interface{} { return new(XStruct) }, func() interface{} { return new(string) }, func() interface{} { return new(JInner) }}
	case "form":
		return []func() interface{}{func() interface{} { return new(FStruct) }, func() interface{} { return new(FInner) }, func() interface{} { return new(map[string][]string) }, func() interface{} { return new(interface{}) }}
	case "plain":
		return []func() interface{}{func() interface{} { return new(bool) }, func() interface{} { return new(int8) }, func() interface{} { return new(int64) }, func() interface{} { return new(uint8) }, func() interface{} { return new(uint64) }, func() interface{} { return new(float32) }, func() interface{} { return new(float64) }, func() interface{} { return new(string) }, func() interface{} { return new(NStr) }, func() interface{} { return new([]byte) }, func() interface{} { return new(NBytes) }, func() interface{} { return new(JStruct) }}
	case "protobuf":
		return []func() interface{}{func() interface{} { return new(secure.Encrypt) }, func() interface{} { return new(pb.Payload) }, func() interface{} { return new(codec.PbEmpty) }}
	case "thrift":
		return []func() interface{}{func() interface{} { return new(TStr) }, func() interface{} { return new(codec.ThriftEmpty) }}
	}
	return nil
}

func garbageCase(c *EnumCtx, cd codec.Codec, class string, data []byte, mk func() interface{}) {
	g := &guarded{V: mk()}
	for i := range g.G1 {
		g.G1[i], g.G2[i] = 0xA5, 0x5A
	}
	c.Evaluations++
	func() {
		defer func() {
			if r := recover(); r != nil {
				c.Fail(fmt.Sprintf("%s: decoding garbage panics out of the codec (%s into %T)", cd.Name(), class, g.V), fmt.Sprintf("%q", data), fmt.Sprint(r))
			}
		}()
		cd.Unmarshal(data, g.V)
	}()
	for i := range g.G1 {
		if g.G1[i] != 0xA5 || g.G2[i] != 0x5A {
			c.Fail(cd.Name()+": decoder wrote outside the destination", fmt.Sprintf("%q", data), "guard bytes changed")
		}
	}
}

func c11Garbage(c *EnumCtx) {
	begin()
	maxLen := c.P.Int("len", 4)
	only := c.P.Get("codec", "")
	for _, name := range []string{"json", "xml", "form", "plain", "protobuf", "thrift"} {
		if only != "" && only != name {
			continue
		}
		cd, err := codec.GetByName(name)
		if err != nil {
			panic(err)
		}
		alpha := c11Alphabets[name]
		dests := c11Dests(name)
		// all strings up to maxLen over the alphabet
		var gen func(cur []byte, depth int)
		n := 0
		gen = func(cur []byte, depth int) {
			if c.Mine() {
				for _, mk := range dests {
					garbageCase(c, cd, "alphabet", cur, mk)
				}
				n++
				if n%50 == 1 {
					c.Case(name+"/garbage-len"+fmt.Sprint(len(cur)), fmt.Sprintf("%s %q", name, cur))
				}
			}
			if depth == maxLen {
				return
			}
			for _, a := range alpha {
				gen(append(append([]byte{}, cur...), a...), depth+1)
			}
		}
		gen(nil, 0)
		if name == "form" {
			// more values than a fixed array holds, repeated keys, stray separators
			for _, q := range []string{"arr=1&arr=2&arr=3&arr=4", "arr=1&arr=2&arr=3&arr=4&arr=5&arr=6", "arr=x", "sli=1&sli=a", "b=maybe", "i=99999999999999999999", "u=-1", "f=1e999", "q=1&q=2", "arr=", "=&=&=", "sl=%zz", "arr=1;arr=2"} {
				if c.Mine() {
					for _, mk := range dests {
						garbageCase(c, cd, "form-shapes", []byte(q), mk)
					}
					c.Case(name+"/form-shapes", q)
				}
			}
		}
		// prefixes and single-byte mutations of valid encodings
		for _, mk := range dests {
			v := mk()
			fillSample(v)
			enc, err := cd.Marshal(v)
			if err != nil || len(enc) == 0 {
				continue
			}
			enc = append([]byte{}, enc...)
			for k := 0; k <= len(enc); k++ {
				if c.Mine() {
					for _, mk2 := range dests {
						garbageCase(c, cd, "prefix", enc[:k], mk2)
					}
				}
			}
			for k := 0; k < len(enc); k++ {
				for _, x := range []byte{0x00, 0x01, 0x7f, 0x80, 0xff, enc[k] ^ 1, enc[k] ^ 0x80} {
					if !c.Mine() {
						continue
					}
					m := append([]byte{}, enc...)
					m[k] = x
					for _, mk2 := range dests {
						garbageCase(c, cd, "mutation", m, mk2)
					}
				}
			}
			c.Case(name+"/mutations", fmt.Sprintf("%s %q", name, trimB(enc)))
		}
	}
}

// fillSample puts recognisable non-zero values into a destination so that its encoding is non-trivial.
func fillSample(v interface{}) {
	switch t := v.(type) {
	case *JStruct:
		*t = JStruct{B: true, I8: -3, I64: 1 << 40, U8: 200, U64: 1 << 60, F32: 1.5, F64: -2.25, S: "sé\"", Bs: []byte{0, 1, 255}, Sl: []int{1, 2}, SS: []string{"a", ""}, Arr: [2]int{5, 6}, N: JInner{X: "n", Y: 2}}
	case *XStruct:
		*t = XStruct{B: true, I: -5, U: 7, F: 1.25, S: "x<y&z", Sl: []int{1, 2}, N: JInner{X: "n", Y: 1}}
	case *FStruct:
		*t = FStruct{B: true, I: -4, U: 9, F: 2.5, S: "a&b=c", Sl: []string{"p", "q"}, SlI: []int{1, 2, 3}, Arr: [3]int{7, 8, 9}, N: FInner{Q: "w"}}
	case *FInner:
		t.Q = "inner"
	case *JInner:
		*t = JInner{X: "x", Y: 9}
	case *secure.Encrypt:
		*t = secure.Encrypt{Cipherversion: "v1", Ciphertext: "ciphertext"}
	case *pb.Payload:
		*t = pb.Payload{Seq: 5, Mtype: 1, ServiceMethod: "/a/b", Status: []byte("code=1"), Meta: []byte("k=v"), BodyCodec: 106, Body: []byte("{}")}
	case *TStr:
		*t = TStr{A: "hello", B: 77, C: []byte{1, 2, 3}}
	case *string:
		*t = "str"
	case *NStr:
		*t = "nstr"
	case *[]byte:
		*t = []byte("bytes")
	case *NBytes:
		*t = NBytes("nbytes")
	case *int64:
		*t = -123456789
	case *int8:
		*t = -7
	case *uint64:
		*t = 123456789
	case *uint8:
		*t = 200
	case *float64:
		*t = -1.5e10
	case *float32:
		*t = 2.5
	case *bool:
		*t = true
	case *[]int:
		*t = []int{1, 2, 3}
	case *[2]int:
		*t = [2]int{1, 2}
	case *map[string]int:
		*t = map[string]int{"a": 1}
	case *map[string][]string:
		*t = map[string][]string{"a": {"1", "2"}}
	}
}

var _ = bytes.Equal
