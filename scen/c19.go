package scen

import (
	"fmt"
	"sort"
	"strings"
	"time"

	erpc "github.com/henrylee2cn/erpc/v6"
	"github.com/henrylee2cn/erpc/v6/plugin/proxy"

	"verif/shim/vnet"
	"verif/shim/vsched"
	"verif/world"
)

func init() { Sched["c19"] = c19; Sched["c19_seq"] = c19Seq; Sched["c19_redial"] = c19Redial }

type c19backend struct {
	peer        erpc.Peer
	call        string
	typed       string
	push        string
	ran         int
	lastArg     string
	seen        []string // metadata seen by the handler (sorted k=v)
	status      *erpc.Status
	closeDuring bool
	breakLink   func()
	hold        *world.Gate // if set, the call handler waits here before it answers
}

func metaOf(visit func(func(k, v []byte))) []string {
	var out []string
	visit(func(k, v []byte) { out = append(out, string(k)+"="+string(v)) })
	sort.Strings(out)
	return out
}

func newC19backend(codecName string) *c19backend {
	b := &c19backend{}
	b.peer = world.NewPeer(codecName)
	b.call = b.peer.RouteCallFunc(func(ctx erpc.CallCtx, arg *[]byte) ([]byte, *erpc.Status) {
		b.ran++
		b.lastArg = string(*arg)
		b.seen = metaOf(ctx.VisitMeta)
		ctx.SetMeta("rk", "rv")
		ctx.AddMeta("dup", "1")
		ctx.AddMeta("dup", "2")
		if b.hold != nil {
			b.hold.Wait()
		}
		if b.closeDuring && b.breakLink != nil {
			b.breakLink() // the connection between proxy and backend is lost while the backend handles the call
		}
		if b.status != nil {
			return nil, b.status
		}
		return append([]byte("echo:"), *arg...), nil
	})
	// a handler with typed argument and result: its reply is encoded with whatever codec the caller asked for
	b.typed = b.peer.SubRoute("/typed").RouteCallFunc(func(ctx erpc.CallCtx, arg *string) (*string, *erpc.Status) {
		b.ran++
		if b.status != nil {
			return nil, b.status
		}
		r := "typed:" + *arg
		return &r, nil
	})
	b.push = b.peer.RoutePushFunc(func(ctx erpc.PushCtx, arg *[]byte) *erpc.Status {
		b.ran++
		b.lastArg = string(*arg)
		b.seen = metaOf(ctx.VisitMeta)
		return nil
	})
	return b
}

type c19result struct {
	stat  string
	body  string
	meta  string
	codec byte
}

func doCall(sess erpc.Session, method string, body []byte, codecID byte, metas [][2]string, accept ...byte) c19result {
	settings := []erpc.MessageSetting{erpc.WithBodyCodec(codecID)}
	if len(accept) > 0 && accept[0] != 0 {
		settings = append(settings, erpc.WithAcceptBodyCodec(accept[0])) // the caller asks for the reply in another codec
	}
	for _, kv := range metas {
		settings = append(settings, erpc.WithAddMeta(kv[0], kv[1]))
	}
	var res []byte
	cmd := sess.Call(method, body, &res, settings...)
	r := c19result{stat: triple(cmd.Status()), body: string(res)}
	if m := cmd.InputMeta(); m != nil {
		one := map[string]string{}
		m.VisitAll(func(k, v []byte) { one[string(k)] = string(v) }) // one value per key: the last
		var ks []string
		for k, v := range one {
			ks = append(ks, k+"="+v)
		}
		sort.Strings(ks)
		r.meta = strings.Join(ks, "&")
	}
	r.codec = cmd.InputBodyCodec()
	return r
}

// c19: proxied result == direct result.
func c19(p Params) func() {
	proto := p.Get("proto", "raw")
	return func() {
		begin()
		kinds := []string{"call", "push"}
		kind := kinds[vsched.Choose(2, "kind")]
		methods := []string{"served", "nowhere"}
		method := methods[vsched.Choose(2, "method")]
		codecs := []struct {
			name string
			id   byte
		}{{"json", 'j'}, {"plain", 's'}, {"protobuf", 'p'}}
		cd := codecs[vsched.Choose(len(codecs), "codec")]
		bodies := []string{`"hello"`, ``, "\x00\xff\"\\", strings.Repeat("b", 300)}
		body := bodies[vsched.Choose(len(bodies), "body")]
		metaSets := [][][2]string{nil, {{"a", "1"}}, {{"a", "1"}, {"a", "2"}}, {{erpc.MetaRealIP, "9.9.9.9:9"}}, {{"a", "&="}, {erpc.MetaRealIP, "9.9.9.9:9"}}}
		metas := metaSets[vsched.Choose(len(metaSets), "meta")]
		stats := []*erpc.Status{nil, erpc.NewStatus(1, "m", "c"), erpc.NewStatus(-1, "", ""), erpc.NewStatus(400, "a b&=%", "é"), erpc.NewStatus(1000, "x", ""), erpc.NewStatus(502, "y", "z")}
		bstat := stats[vsched.Choose(len(stats), "backend_status")]
		faults := []string{"none", "before", "during"}
		fault := faults[vsched.Choose(len(faults), "fault")]
		// the caller may ask for the reply in a codec of its choice (crossed with the fault-free, metadata-free part
		// of the product only, to keep the product tractable)
		accept := []byte{0, 'x', 'j', 's'}[vsched.Choose(4, "accept_codec")]
		if accept != 0 && (kind != "call" || fault != "none" || len(metas) != 0) {
			world.Counter("pruned_accept")
			return
		}
		ctxt := fmt.Sprintf("kind=%s method=%s codec=%s accept=%q body=%q meta=%v backend_status=%s fault=%s", kind, method, cd.name, string(accept), body, metas, triple(bstat), fault)
		if kind == "push" && (bstat != nil) {
			bstat = nil
		}

		// direct reference: a client talking to a backend of its own
		ref := newC19backend("json")
		ref.status = bstat
		refCli := world.NewPeer("json")
		rcs, _, _ := world.Connect(refCli, ref.peer, world.Proto(proto))

		// proxied: client -> proxy -> backend
		be := newC19backend("json")
		be.status = bstat
		var toBackend erpc.Session
		px := world.NewPeer("json", proxy.NewPlugin(func(*proxy.Label) proxy.Forwarder { return toBackend }))
		var link *world.Link
		var beSide erpc.Session
		toBackend, beSide, link = world.Connect(px, be.peer, world.Proto(proto))
		be.breakLink = func() { link.A.Break() }
		cli := world.NewPeer("json")
		cs, _, _ := world.Connect(cli, px, world.Proto(proto))
		cliAddr := cs.LocalAddr().String()

		name := func(b *c19backend) string {
			if method == "nowhere" {
				return "/served/nowhere"
			}
			if kind == "push" {
				return b.push
			}
			return b.call
		}
		switch fault {
		case "before":
			beSide.Close()
			vsched.Quiesce()
		case "during":
			be.closeDuring = true
		}
		if kind == "call" {
			got := doCall(cs, name(be), []byte(body), cd.id, metas, accept)
			vsched.Quiesce()
			if fault != "none" && !(fault == "during" && method == "nowhere") {
				if !strings.HasPrefix(got.stat, "(502|") {
					vsched.Failf("backend connection failed (%s) but the proxied call reports %s, want 502 Bad Gateway | %s", fault, got.stat, ctxt)
				}
				vsched.Logf("fault %s", ctxt)
				return
			}
			want := doCall(rcs, name(ref), []byte(body), cd.id, metas, accept)
			vsched.Quiesce()
			if method == "served" && cd.id == 'j' && body == `"hello"` {
				// the same through a handler with typed argument and result, decoded by the caller into a string
				typedCall := func(sess erpc.Session, m string) string {
					var res string
					st := []erpc.MessageSetting{erpc.WithBodyCodec('j')}
					if accept != 0 {
						st = append(st, erpc.WithAcceptBodyCodec(accept))
					}
					cmd := sess.Call(m, "hello", &res, st...)
					return fmt.Sprintf("%s result=%q codec=%d", triple(cmd.Status()), res, cmd.InputBodyCodec())
				}
				tg, tw := typedCall(cs, be.typed), typedCall(rcs, ref.typed)
				vsched.Quiesce()
				if tg != tw {
					vsched.Failf("typed call through the proxy: %s, directly: %s | %s", tg, tw, ctxt)
				}
				be.ran--
				ref.ran--
			}
			if got.stat != want.stat {
				vsched.Failf("proxied status %s differs from the direct status %s | %s", got.stat, want.stat, ctxt)
			}
			if got.body != want.body {
				vsched.Failf("proxied body %q differs from the direct body %q | %s", got.body, want.body, ctxt)
			}
			if got.meta != want.meta {
				vsched.Failf("proxied reply metadata %q differs from direct %q | %s", got.meta, want.meta, ctxt)
			}
			if got.codec != want.codec {
				vsched.Failf("proxied reply body codec %d differs from direct %d | %s", got.codec, want.codec, ctxt)
			}
			if be.ran != ref.ran {
				vsched.Failf("backend handler ran %d times via the proxy, %d times directly | %s", be.ran, ref.ran, ctxt)
			}
			if method == "served" {
				if be.ran != 1 {
					vsched.Failf("the call was forwarded %d times | %s", be.ran, ctxt)
				}
				wantSeen := append([]string{}, ref.seen...)
				hasIP := false
				for _, kv := range metas {
					if kv[0] == erpc.MetaRealIP {
						hasIP = true
					}
				}
				if !hasIP {
					wantSeen = append(wantSeen, erpc.MetaRealIP+"="+cliAddr)
					sort.Strings(wantSeen)
				}
				if fmt.Sprint(be.seen) != fmt.Sprint(wantSeen) {
					vsched.Failf("backend saw metadata %v via the proxy, want %v | %s", be.seen, wantSeen, ctxt)
				}
			}
		} else {
			settings := []erpc.MessageSetting{erpc.WithBodyCodec(cd.id)}
			for _, kv := range metas {
				settings = append(settings, erpc.WithAddMeta(kv[0], kv[1]))
			}
			st := cs.Push(name(be), []byte(body), settings...)
			vsched.Quiesce()
			if !st.OK() {
				vsched.Failf("push to the proxy failed: %s | %s", world.StatStr(st), ctxt)
			}
			wantRan := 1
			if method == "nowhere" || fault == "before" {
				wantRan = 0
			}
			if be.ran != wantRan {
				vsched.Failf("push forwarded %d times, want %d | %s", be.ran, wantRan, ctxt)
			}
		}
		vsched.Logf("%s", ctxt)
	}
}

// c19Seq: a sequence of calls and pushes with bodies of different lengths (empty included) through one proxy;
// every one must reach the backend, and come back, exactly as when sent directly (the proxy's pooled contexts
// and buffers carry nothing from one forwarded message to the next).
func c19Seq(p Params) func() {
	depth := p.Int("depth", 3)
	proto := p.Get("proto", "raw")
	return func() {
		begin()
		ref := newC19backend("json")
		refCli := world.NewPeer("json")
		rcs, _, _ := world.Connect(refCli, ref.peer, world.Proto(proto))
		be := newC19backend("json")
		var toBackend erpc.Session
		px := world.NewPeer("json", proxy.NewPlugin(func(*proxy.Label) proxy.Forwarder { return toBackend }))
		toBackend, _, _ = world.Connect(px, be.peer, world.Proto(proto))
		cli := world.NewPeer("json")
		cs, _, _ := world.Connect(cli, px, world.Proto(proto))
		bodies := []string{`"hello"`, ``, strings.Repeat("b", 300)}
		hist := ""
		for i := 0; i < depth; i++ {
			k := vsched.Choose(2*len(bodies), "op")
			body := bodies[k%len(bodies)]
			if k < len(bodies) {
				hist += fmt.Sprintf("call(%d bytes) ", len(body))
				got := doCall(cs, be.call, []byte(body), 's', nil)
				want := doCall(rcs, ref.call, []byte(body), 's', nil)
				if got.stat != want.stat || got.body != want.body {
					vsched.Failf("proxied call #%d returned %s %q, the direct call %s %q | %s", i, got.stat, got.body, want.stat, want.body, hist)
				}
				if be.lastArg != body {
					vsched.Failf("the backend received %q for a proxied call whose body is %q | %s", be.lastArg, body, hist)
				}
			} else {
				hist += fmt.Sprintf("push(%d bytes) ", len(body))
				before := be.ran
				if st := cs.Push(be.push, []byte(body), erpc.WithBodyCodec('s')); !st.OK() {
					vsched.Failf("push to the proxy failed: %s | %s", world.StatStr(st), hist)
				}
				vsched.Quiesce()
				if be.ran != before+1 {
					vsched.Failf("proxied push #%d was forwarded %d times | %s", i, be.ran-before, hist)
				}
				if be.lastArg != body {
					vsched.Failf("the backend received %q for a proxied push whose body is %q | %s", be.lastArg, body, hist)
				}
			}
		}
		vsched.Logf("%s", hist)
	}
}

// redialGate is a PostDial plugin of the proxy's forwarding peer that holds a redial open until the harness lets it go.
type redialGate struct {
	gate    *world.Gate
	entered bool
}

func (r *redialGate) Name() string { return "redialgate" }
func (r *redialGate) PostDial(s erpc.PreSession, isRedial bool) *erpc.Status {
	if isRedial {
		r.entered = true
		r.gate.Wait()
	}
	return nil
}

// c19Redial: the proxy forwards over a redial-enabled session. The backend drops the idle connection; while the
// forwarder is redialing, a proxied call (or push) arrives; the redial then completes. The backend is reachable
// and the loss preceded the request, so the proxied result must equal the direct one (all schedules).
func c19Redial(p Params) func() {
	return func() {
		begin()
		push := vsched.Choose(2, "kind") == 1
		const addr = "10.0.0.9:9000"
		be := newC19backend("json")
		lis := vnet.Listen(addr)
		vsched.Spawn("acceptloop", func() { erpc.VerifServeListener(be.peer, lis) })
		rg := &redialGate{gate: &world.Gate{}}
		fwd := erpc.NewPeer(erpc.PeerConfig{DefaultBodyCodec: "json", RedialTimes: 1, RedialInterval: time.Millisecond}, rg)
		toBackend, st := fwd.Dial(addr)
		if !st.OK() {
			vsched.Failf("dial backend: %v", st)
		}
		px := world.NewPeer("json", proxy.NewPlugin(func(*proxy.Label) proxy.Forwarder { return toBackend }))
		cli := world.NewPeer("json")
		cs, _, _ := world.Connect(cli, px, nil)
		ref := newC19backend("json")
		refCli := world.NewPeer("json")
		rcs, _, _ := world.Connect(refCli, ref.peer, nil)
		if got := doCall(cs, be.call, []byte("warm"), 's', nil); got.stat != "OK" && !strings.HasPrefix(got.stat, "(0|") {
			vsched.Failf("warm-up proxied call failed: %s", got.stat)
		}
		// the backend drops the idle connection
		for _, x := range vnet.Conns() {
			if x.LocalAddr().String() == addr && !x.IsClosed() {
				x.Close()
			}
		}
		vsched.Quiesce()
		if !rg.entered {
			vsched.Failf("harness: the forwarder did not start to redial")
		}
		ran0 := be.ran
		var got c19result
		var pst *erpc.Status
		caller := world.Go("caller", func() {
			if push {
				pst = cs.Push(be.push, []byte("during"), erpc.WithBodyCodec('s'))
			} else {
				got = doCall(cs, be.call, []byte("during"), 's', nil)
			}
		})
		// the backend answers only after everything else has settled (the redial and whatever follows it)
		be.hold = &world.Gate{}
		vsched.Quiesce() // the request has reached the forwarder, which waits for the redial in progress
		opener := world.Go("opener", func() { rg.gate.Open() })
		vsched.Join(opener)
		vsched.Quiesce()
		be.hold.Open()
		vsched.Join(caller)
		vsched.Quiesce()
		if push {
			if !pst.OK() {
				vsched.Failf("push to the proxy failed: %s", world.StatStr(pst))
			}
			if be.ran != ran0+1 || be.lastArg != "during" {
				vsched.Failf("proxied push issued while the forwarder was redialing reached the backend %d times (arg %q), want once", be.ran-ran0, be.lastArg)
			}
		} else {
			want := doCall(rcs, ref.call, []byte("during"), 's', nil)
			if got.stat != want.stat || got.body != want.body || got.meta != want.meta {
				vsched.Failf("proxied call issued while the forwarder was redialing returned %s %q meta %q, the direct call %s %q meta %q (backend handled it %d time(s))", got.stat, got.body, got.meta, want.stat, want.body, want.meta, be.ran-ran0)
			}
		}
		vsched.Logf("push=%v ran=%d", push, be.ran-ran0)
	}
}
