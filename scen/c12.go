package scen

import (
	"bytes"
	"fmt"
	"math"

	erpc "github.com/henrylee2cn/erpc/v6"
	"github.com/henrylee2cn/erpc/v6/socket"
	"github.com/henrylee2cn/erpc/v6/xfer"

	"verif/shim/vsched"
	"verif/world"
)

func init() {
	Enum["c12_pipes"] = c12Pipes
	Enum["c12_corrupt"] = c12Corrupt
	Sched["c12_live"] = c12Live
}

func c12Payloads(big bool) [][]byte {
	out := [][]byte{{}}
	for i := 0; i < 256; i++ {
		out = append(out, []byte{byte(i)})
	}
	out = append(out, bytes.Repeat([]byte("abcd"), 256))
	lcg := make([]byte, 1024)
	x := uint32(99)
	for i := range lcg {
		x = x*1664525 + 1013904223
		lcg[i] = byte(x >> 24)
	}
	out = append(out, lcg)
	if big {
		mb := make([]byte, 1<<20)
		for i := range mb {
			x = x*1664525 + 1013904223
			mb[i] = byte(x >> 24)
			if i%3 == 0 {
				mb[i] = 'z'
			}
		}
		out = append(out, mb)
	}
	return out
}

func c12Pipes(c *EnumCtx) {
	begin()
	maxLen := c.P.Int("len", 3)
	ids := []byte{'g', 'm'}
	var pipes [][]byte
	var gen func(cur []byte)
	gen = func(cur []byte) {
		pipes = append(pipes, append([]byte{}, cur...))
		if len(cur) == maxLen {
			return
		}
		for _, id := range ids {
			gen(append(cur, id))
		}
	}
	gen(nil)
	// long pipes up to the documented maximum (md5 only: cheap)
	for _, n := range []int{254, 255} {
		pipes = append(pipes, bytes.Repeat([]byte{'m'}, n))
	}
	payloads := c12Payloads(c.P.Get("big", "0") == "1")
	for _, pp := range pipes {
		for pi, pl := range payloads {
			if len(pp) > 8 && pi > 3 && pi < 250 {
				continue // long pipes: a few payloads only
			}
			if !c.Mine() {
				continue
			}
			name := fmt.Sprintf("pipe=%q payload#%d(len %d)", pp, pi, len(pl))
			c.Case(fmt.Sprintf("pipe-len%d", len(pp)), name)
			func() {
				defer func() {
					if r := recover(); r != nil {
						c.Fail("pipe pack/unpack panics", name, fmt.Sprint(r))
					}
				}()
				p := xfer.NewXferPipe()
				if err := p.Append(pp...); err != nil {
					c.Fail("pipe over registered filters refused", name, err.Error())
					return
				}
				if !bytes.Equal(p.IDs(), pp) && len(pp) > 0 {
					c.Fail("pipe does not report the ids it was built from", name, fmt.Sprintf("%q", p.IDs()))
				}
				src := append([]byte{}, pl...)
				packed, err := p.OnPack(append([]byte{}, pl...))
				if err != nil {
					c.Fail("OnPack fails", name, err.Error())
					return
				}
				packed = append([]byte{}, packed...)
				got, err := p.OnUnpack(packed)
				if err != nil {
					c.Fail("OnUnpack of a packed payload fails", name, err.Error())
					return
				}
				if !bytes.Equal(got, src) {
					c.Fail("unpacking the packed payload does not restore it", name, fmt.Sprintf("got %d bytes, want %d", len(got), len(src)))
				}
			}()
		}
	}
	// frame level: the receiver learns the pipe from the frame, also at the documented maximum length
	for _, spec := range protoSpecs() {
		if spec.msgFramed {
			continue
		}
		for _, n := range []int{0, 1, 2, 3, 17, 128, 254, 255} {
			for _, kind := range []string{"m", "g", "gm"} {
				if !c.Mine() {
					continue
				}
				var pp []byte
				for i := 0; i < n; i++ {
					pp = append(pp, kind[i%len(kind)])
				}
				if kind != "m" && n > 17 {
					continue // long gzip chains only inflate
				}
				m := mmsg{Seq: 3, Mtype: 1, Method: "/a", Codec: 'j', Body: []byte(`{"k":"` + string(bytes.Repeat([]byte("v"), 64)) + `"}`), Pipe: pp}
				// a second frame behind it must still be decodable (frame sync)
				rw := &memRW{}
				p := spec.pf(rw)
				name := fmt.Sprintf("%s frame with pipe %q x %d", spec.name, kind, n)
				c.Case(fmt.Sprintf("frame-pipe-len%d", n), name)
				if err := p.Pack(build(m)); err != nil {
					c.Fail(spec.name+": packing a frame with a registered pipe fails", name, err.Error())
					continue
				}
				p.Pack(build(mmsg{Seq: 4, Mtype: 1, Method: "/b", Codec: 'j', Body: []byte(`"s"`)}))
				rd := spec.pf(&memRW{r: bytes.NewReader(rw.w.Bytes())})
				for k, want := range []mmsg{m, {Seq: 4, Mtype: 1, Method: "/b", Codec: 'j', Body: []byte(`"s"`)}} {
					in := socket.NewMessage(socket.WithNewBody(func(socket.Header) interface{} { return new([]byte) }))
					if err := rd.Unpack(in); err != nil {
						c.Fail(spec.name+": a frame sent through a registered pipe cannot be unpacked", fmt.Sprintf("%s (frame %d)", name, k), err.Error())
						break
					}
					if d := sameMsg(expectOf(want), extract(in)); d != "" {
						c.Fail(spec.name+": a frame sent through a registered pipe is unpacked differently: "+fieldOf(d), fmt.Sprintf("%s (frame %d)", name, k), d)
						break
					}
				}
			}
		}
	}
	// too long / unregistered
	if c.Mine() {
		p := xfer.NewXferPipe()
		if err := p.Append(bytes.Repeat([]byte{'m'}, 256)...); err == nil {
			c.Fail("a pipe longer than 255 filters is accepted", "256 x md5", "")
		}
		c.Case("pipe-len256", "256 x md5")
	}
	for pos := 0; pos < 3; pos++ {
		if !c.Mine() {
			continue
		}
		ids := []byte{'g', 'm', 'g'}
		ids[pos] = 'z'
		p := xfer.NewXferPipe()
		if err := p.Append(ids...); err == nil {
			c.Fail("a pipe naming an unregistered filter is accepted by Append", fmt.Sprintf("%q", ids), "")
		}
		c.Case("pipe-unregistered", fmt.Sprintf("%q", ids))
		// and at Unpack: a frame that names the unregistered filter must be refused, not passed through
		for _, spec := range protoSpecs()[:3] {
			f := world.Frame{Seq: 1, Mtype: 1, Method: "/a", Codec: 'j', Body: []byte(`"x"`)}
			wire := f.Bytes()
			if spec.name != "raw" {
				// build a valid frame first, then splice the pipe bytes in (json/pb: size, pipe len, ids, payload)
				rw := &memRW{}
				spec.pf(rw).Pack(build(mmsg{Seq: 1, Mtype: 1, Method: "/a", Codec: 'j', Body: []byte(`"x"`)}))
				w := rw.w.Bytes()
				payload := w[5:]
				n := 1 + len(ids) + len(payload)
				wire = []byte{byte(n >> 24), byte(n >> 16), byte(n >> 8), byte(n), byte(len(ids))}
				wire = append(wire, ids...)
				wire = append(wire, payload...)
			} else {
				f.Pipe = ids
				wire = f.Bytes()
			}
			in := socket.NewMessage(socket.WithNewBody(func(socket.Header) interface{} { return new([]byte) }))
			err := func() (err error) {
				defer func() {
					if r := recover(); r != nil {
						err = fmt.Errorf("panic: %v", r)
					}
				}()
				return spec.pf(&memRW{r: bytes.NewReader(wire)}).Unpack(in)
			}()
			if err == nil {
				c.Fail(spec.name+": a frame naming an unregistered filter is accepted by Unpack", fmt.Sprintf("%q", ids), "")
			}
		}
	}
}

// c12Corrupt: the integrity filter rejects every single-byte corruption.
func c12Corrupt(c *EnumCtx) {
	begin()
	maxLen := c.P.Int("len", 16)
	f, err := xfer.Get('m')
	if err != nil {
		panic(err)
	}
	for n := 0; n <= maxLen; n++ {
		pl := make([]byte, n)
		for i := range pl {
			pl[i] = byte(i*37 + n)
		}
		packed, err := f.OnPack(append([]byte{}, pl...))
		if err != nil {
			c.Fail("md5 OnPack fails", fmt.Sprint(n), err.Error())
			continue
		}
		packed = append([]byte{}, packed...)
		for off := 0; off < len(packed); off++ {
			if !c.Mine() {
				continue
			}
			for d := 1; d < 256; d++ {
				m := append([]byte{}, packed...)
				m[off] ^= byte(d)
				c.Evaluations++
				if out, err := f.OnUnpack(m); err == nil {
					c.Fail("the integrity filter accepts an altered payload", fmt.Sprintf("len=%d offset=%d xor=%d", n, off, d), fmt.Sprintf("returned %q", out))
				}
			}
			c.Case(fmt.Sprintf("len%d", n), fmt.Sprintf("payload len %d, corrupted offset %d (255 values)", n, off))
		}
		// truncation and extension
		if c.Mine() {
			for k := 0; k < len(packed); k++ {
				if _, err := f.OnUnpack(append([]byte{}, packed[:k]...)); err == nil {
					c.Fail("the integrity filter accepts a truncated payload", fmt.Sprintf("len=%d cut=%d", n, k), "")
				}
			}
			if _, err := f.OnUnpack(append(append([]byte{}, packed...), 0)); err == nil {
				c.Fail("the integrity filter accepts an extended payload", fmt.Sprintf("len=%d", n), "")
			}
		}
	}
}

// c12Live: a reply to a call is sent through the caller's pipe.
func c12Live(p Params) func() {
	return func() {
		begin()
		pipes := [][]byte{nil, {'g'}, {'m'}, {'g', 'm'}, {'m', 'g'}, {'m', 'm'}}
		protos := []string{"raw", "json", "pb", "thrift", "http"}
		pp := pipes[vsched.Choose(len(pipes), "pipe")]
		pr := protos[vsched.Choose(len(protos), "proto")]
		// handler outcome: 0 result, 1 error status, 2 a result the body codec cannot encode (the framework falls back
		// to an error reply), 3 panic, 4 no such route, 5 result after the handler asked for one more registered filter
		// and an unregistered one in the same call (the refusal of the latter is not reported to the handler)
		outcome := vsched.Choose(6, "handler_outcome")
		if pr == "http" && (outcome == 5 || !(len(pp) == 0 || (len(pp) == 1 && pp[0] == 'g'))) {
			world.Counter("not_representable") // the HTTP-style protocol carries gzip as its only filter
			return
		}
		srv := world.NewPeer("json")
		h := srv.RouteCallFunc(func(ctx erpc.CallCtx, arg *string) (*string, *erpc.Status) {
			switch outcome {
			case 1:
				return nil, erpc.NewStatus(1000, "no", "because")
			case 3:
				panic("boom")
			case 5:
				ctx.AddXferPipe('g', 31)
			}
			r := "r:" + *arg
			return &r, nil
		})
		hBad := srv.SubRoute("/bad").RouteCallFunc(func(ctx erpc.CallCtx, arg *string) (*float64, *erpc.Status) {
			r := math.NaN()
			return &r, nil
		})
		switch outcome {
		case 2:
			h = hBad
		case 4:
			h = "/no/such/route"
		}
		cli := world.NewPeer("json")
		var reqPipe, repPipe []byte
		rec := &pipeSpy{}
		cli.PluginContainer().AppendRight(rec)
		cs, _, _ := world.Connect(cli, srv, world.Proto(pr))
		var res string
		var st *erpc.Status
		if len(pp) > 0 {
			st = cs.Call(h, "x", &res, erpc.WithXferPipe(pp...)).Status()
		} else {
			st = cs.Call(h, "x", &res).Status()
		}
		reqPipe, repPipe = pp, rec.replyPipe
		ctxt := fmt.Sprintf("pipe %q over %s, handler outcome %d", pp, pr, outcome)
		switch outcome {
		case 0, 5:
			if !st.OK() || res != "r:x" {
				vsched.Failf("call failed: %s %q | %s", world.StatStr(st), res, ctxt)
			}
		case 1:
			if st.Code() != 1000 || st.Msg() != "no" {
				vsched.Failf("caller got %s, want the handler's status (1000|no|because) | %s", world.StatStr(st), ctxt)
			}
		case 2, 3:
			if st.Code() != erpc.CodeInternalServerError {
				vsched.Failf("caller got %s, want 500 Internal Server Error | %s", world.StatStr(st), ctxt)
			}
		case 4:
			if st.Code() != erpc.CodeNotFound {
				vsched.Failf("caller got %s, want 404 Not Found | %s", world.StatStr(st), ctxt)
			}
		}
		if !rec.seen {
			vsched.Failf("no reply observed | %s", ctxt)
		}
		if outcome == 5 {
			// the reply goes through the caller's pipe plus whatever the handler added
			if !bytes.HasPrefix(repPipe, reqPipe) {
				vsched.Failf("call sent through pipe %q but the reply frame carried pipe %q | %s", reqPipe, repPipe, ctxt)
			}
		} else if !bytes.Equal(reqPipe, repPipe) && !(len(reqPipe) == 0 && len(repPipe) == 0) {
			vsched.Failf("call sent through pipe %q but the reply frame carried pipe %q | %s", reqPipe, repPipe, ctxt)
		}
		vsched.Logf("%s", ctxt)
	}
}

// pipeSpy records the transfer pipe of received replies (caller side, from the frame itself).
type pipeSpy struct {
	seen      bool
	replyPipe []byte
}

func (p *pipeSpy) Name() string { return "pipespy" }
func (p *pipeSpy) PostReadReplyHeader(ctx erpc.ReadCtx) *erpc.Status {
	p.seen = true
	p.replyPipe = append([]byte{}, ctx.Input().XferPipe().IDs()...)
	return nil
}
