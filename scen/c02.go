package scen

import (
	"fmt"

	erpc "github.com/henrylee2cn/erpc/v6"
	"github.com/henrylee2cn/erpc/v6/utils"

	"verif/shim/vnet"
	"verif/shim/vsched"
	"verif/shim/vsync"
	"verif/world"
)

func init() {
	Sched["c02_live"] = c02Live
	Sched["c02_hostile"] = c02Hostile
}

func echoHandler(ctx erpc.CallCtx, arg *string) (*string, *erpc.Status) {
	r := "echo:" + *arg
	return &r, nil
}

// begin resets process-global framework state at the start of every execution.
func begin() {
	world.Setup()
	world.ResetGlobals()
	erpc.VerifResetPeers()
	utils.VerifResetBufferPool()
	restoreSentinels()
}

type callRec struct {
	cmd  erpc.CallCmd
	ch   chan erpc.CallCmd
	arg  string
	res  *string
	done bool
	// what the caller saw at the moment the completion was delivered to it
	got    erpc.CallCmd
	atDone string
}

// checkCall applies the C02 per-call oracle after the system is quiescent.
func checkCall(i int, c *callRec, mustOK bool) {
	if c.cmd == nil {
		vsched.Failf("call %d: AsyncCall did not return", i)
	}
	if !world.IsDone(c.cmd) {
		vsched.Failf("call %d never completed (Done not closed) after the terminal event; %s", i, vsched.BlockedDesc())
	}
	got := c.got
	if got != nil {
		if n := len(c.ch); n != 0 {
			vsched.Failf("call %d delivered %d more times to the completion channel after the caller received it", i, n)
		}
	} else {
		if n := len(c.ch); n != 1 {
			vsched.Failf("call %d delivered %d times to the completion channel (want exactly 1)", i, n)
		}
		got = <-c.ch
	}
	if got != c.cmd {
		vsched.Failf("call %d: completion channel delivered a different CallCmd", i)
	}
	st := c.cmd.Status()
	if c.atDone != "" && c.atDone != world.StatStr(st)+" "+deref(c.res) {
		vsched.Failf("call %d: the caller saw %s when the completion was delivered, later the call reads %s %s (a completed call changed)", i, c.atDone, world.StatStr(st), deref(c.res))
	}
	if st.OK() {
		want := "echo:" + c.arg
		if c.res == nil || *c.res != want {
			vsched.Failf("call %d: OK status but result %q, want %q", i, deref(c.res), want)
		}
	} else if mustOK {
		vsched.Failf("call %d: no fault was injected but status is %s", i, world.StatStr(st))
	}
	vsched.Logf("call%d=%s", i, statClass(st))
}

func deref(s *string) string {
	if s == nil {
		return "<nil>"
	}
	return *s
}

func statClass(st *erpc.Status) string {
	if st.OK() {
		return "OK"
	}
	return fmt.Sprint(st.Code())
}

// c02Live: two real peers, n concurrent calls, one fault event.
func c02Live(p Params) func() {
	proto := p.Get("proto", "raw")
	n := p.Int("calls", 1)
	event := p.Get("event", "none")
	waitChan := p.Get("wait", "done") == "chan"
	hookFail := p.Get("hookfail", "0") == "1"
	shared := p.Get("shared", "0") == "1" // all calls deliver to one completion channel whose capacity is the number of calls
	var reqLen, repLen int
	body := func(calib bool) func() {
		return func() {
			begin()
			pf := world.Proto(proto)
			srv := world.NewPeer("json")
			srv.RouteCallFunc(echoHandler)
			var cliPlugins []erpc.Plugin
			if hookFail {
				// a calling-side plugin whose post-write stage reports a failure (the request is already on the wire)
				r := NewRec("postwrite", nil)
				r.Only = map[string]bool{"postwritecall": true}
				r.Veto["postwritecall"] = erpc.NewStatus(1000, "post-write hook failed", "")
				cliPlugins = append(cliPlugins, r)
			}
			cli := world.NewPeer("json", cliPlugins...)
			cs, ss, link := world.Connect(cli, srv, pf)
			ev := event
			if calib {
				ev = "none"
			}
			switch ev {
			case "cutreq":
				off := vsched.Choose(reqLen+1, "cutreq")
				link.A.CutAfter(off)
				vsched.Logf("cutreq@%d", off)
			case "cutrep":
				off := vsched.Choose(repLen+1, "cutrep")
				link.B.CutAfter(off)
				vsched.Logf("cutrep@%d", off)
			}
			calls := make([]*callRec, n)
			var ths []*vsched.Thread
			sharedCh := make(chan erpc.CallCmd, n)
			for i := 0; i < n; i++ {
				i := i
				c := &callRec{ch: make(chan erpc.CallCmd, 4), arg: fmt.Sprintf("a%d", i), res: new(string)}
				if shared {
					c.ch = sharedCh
				}
				calls[i] = c
				ths = append(ths, world.Go(fmt.Sprintf("caller%d", i), func() {
					c.cmd = cs.AsyncCall("/echo_handler", &c.arg, c.res, c.ch)
					if waitChan {
						// consume the completion from the caller's own channel and look at it at once
						vsync.AwaitRecv(c.ch)
						c.got = <-c.ch
						c.atDone = world.StatStr(c.got.Status()) + " " + deref(c.res)
					} else {
						world.WaitDone(c.cmd)
						c.atDone = world.StatStr(c.cmd.Status()) + " " + deref(c.res)
					}
					c.done = true
				}))
			}
			switch ev {
			case "localclose":
				ths = append(ths, world.Go("closer", func() { cs.Close() }))
			case "remoteclose":
				ths = append(ths, world.Go("closer", func() { ss.Close() }))
			case "break":
				ths = append(ths, world.Go("breaker", func() { link.A.Break() }))
			case "bothclose":
				ths = append(ths, world.Go("closer", func() { cs.Close() }))
				ths = append(ths, world.Go("breaker", func() { link.A.Break() }))
			}
			for _, t := range ths {
				vsched.Join(t)
			}
			if calib {
				reqLen, repLen = len(link.A.Written), len(link.B.Written)
			}
			if n := erpc.VerifPendingCalls(cs); n != 0 {
				vsched.Failf("%d entries left in the pending-call table after all calls completed", n)
			}
			cli.Close()
			srv.Close()
			vsched.Quiesce()
			if shared {
				// one channel for all calls: every call is delivered to it exactly once
				delivered := map[erpc.CallCmd]int{}
				for len(sharedCh) > 0 {
					delivered[<-sharedCh]++
				}
				for i, c := range calls {
					if c.cmd == nil || !world.IsDone(c.cmd) {
						vsched.Failf("call %d never completed after the terminal event; %s", i, vsched.BlockedDesc())
					}
					if delivered[c.cmd] != 1 {
						vsched.Failf("call %d delivered %d times to the shared completion channel (want exactly 1)", i, delivered[c.cmd])
					}
					if st := c.cmd.Status(); st.OK() && *c.res != "echo:"+c.arg {
						vsched.Failf("call %d: OK status but result %q", i, *c.res)
					} else if !st.OK() && ev == "none" && !hookFail {
						vsched.Failf("call %d: no fault was injected but status is %s", i, world.StatStr(st))
					}
					vsched.Logf("call%d=%s", i, statClass(c.cmd.Status()))
				}
			} else {
				for i, c := range calls {
					checkCall(i, c, ev == "none" && !hookFail)
				}
			}
			if l := vsched.Live(); l != 0 {
				vsched.Failf("%d goroutines still blocked after both peers were closed: %s", l, vsched.BlockedDesc())
			}
		}
	}
	if event == "cutreq" || event == "cutrep" {
		x := vsched.Run(nil, 100000, body(true))
		if x.Verdict != "" {
			panic("c02_live calibration failed: " + x.Verdict + " " + x.Detail)
		}
	}
	return body(false)
}

// hostile reply alphabet (built from the request frame)
var hostileKinds = []string{"ok", "dup", "unknownseq", "codec0body", "badbody", "errstatus_body", "wrongtype_call", "wrongtype_push", "wrongtype_9", "okmeta", "truncated", "nothing"}

func hostileReply(kind string, req world.Frame) [][]byte {
	ok := world.Frame{Seq: req.Seq, Mtype: 2, Codec: 'j', Body: []byte(`"echo:a0"`)}
	switch kind {
	case "ok":
		return [][]byte{ok.Bytes()}
	case "dup":
		return [][]byte{ok.Bytes(), ok.Bytes()}
	case "unknownseq":
		f := ok
		f.Seq += 100
		return [][]byte{f.Bytes()}
	case "codec0body":
		f := ok
		f.Codec = 0
		return [][]byte{f.Bytes()}
	case "badbody":
		f := ok
		f.Body = []byte(`{{{`)
		return [][]byte{f.Bytes()}
	case "errstatus_body":
		f := ok
		f.Status = "code=500&msg=boom"
		return [][]byte{f.Bytes()}
	case "wrongtype_call":
		f := ok
		f.Mtype = 1
		f.Method = "/nope"
		return [][]byte{f.Bytes()}
	case "wrongtype_push":
		f := ok
		f.Mtype = 3
		f.Method = "/nope"
		return [][]byte{f.Bytes()}
	case "wrongtype_9":
		f := ok
		f.Mtype = 9
		return [][]byte{f.Bytes()}
	case "okmeta":
		f := ok
		f.Meta = "k=v&k=w"
		return [][]byte{f.Bytes()}
	case "nothing":
		return nil
	}
	panic("unknown hostile kind " + kind)
}

// c02Hostile: a real client against a scripted raw peer that answers with a hostile reply, then closes.
func c02Hostile(p Params) func() {
	kind := p.Get("kind", "ok")
	n := p.Int("calls", 1)
	return func() {
		begin()
		cli := world.NewPeer("json")
		ca, cb := vnet.Pipe(vnet.NewAddr(), vnet.NewAddr())
		cs, st := cli.ServeConn(ca, world.Proto("raw"))
		if !st.OK() {
			vsched.Failf("ServeConn: %v", st)
		}
		calls := make([]*callRec, n)
		var ths []*vsched.Thread
		for i := 0; i < n; i++ {
			c := &callRec{ch: make(chan erpc.CallCmd, 4), arg: fmt.Sprintf("a%d", i), res: new(string)}
			calls[i] = c
			ths = append(ths, world.Go(fmt.Sprintf("caller%d", i), func() {
				c.cmd = cs.AsyncCall("/echo_handler", &c.arg, c.res, c.ch)
				world.WaitDone(c.cmd)
			}))
		}
		ths = append(ths, world.Go("rawpeer", func() {
			for i := 0; i < n; i++ {
				req, ok := world.ReadFrame(cb)
				if !ok {
					break
				}
				if kind == "truncated" {
					full := hostileReply("ok", req)[0]
					k := vsched.Choose(len(full), "trunc")
					vsched.Logf("trunc@%d", k)
					cb.Write(full[:k])
					break
				}
				for _, b := range hostileReply(kind, req) {
					cb.Write(b)
				}
			}
			cb.Close()
		}))
		for _, t := range ths {
			vsched.Join(t)
		}
		vsched.Quiesce()
		for i, c := range calls {
			if !world.IsDone(c.cmd) {
				vsched.Failf("call %d never completed after the peer replied (%s) and closed; %s", i, kind, vsched.BlockedDesc())
			}
			if k := len(c.ch); k != 1 {
				vsched.Failf("call %d delivered %d times to the completion channel (want exactly 1)", i, k)
			}
			vsched.Logf("call%d=%s", i, statClass(c.cmd.Status()))
		}
		if k := erpc.VerifPendingCalls(cs); k != 0 {
			vsched.Failf("%d entries left in the pending-call table after disconnect", k)
		}
		cli.Close()
		vsched.Quiesce()
		if l := vsched.Live(); l != 0 {
			vsched.Failf("%d goroutines still blocked after the peer was closed: %s", l, vsched.BlockedDesc())
		}
	}
}
