package scen

import (
	"time"

	"fmt"

	erpc "github.com/henrylee2cn/erpc/v6"

	"verif/shim/vnet"
	"verif/shim/vsched"
	"verif/world"
)

func init() { Sched["c14_soup"] = c14Soup; Sched["c14_dial"] = c14Dial }

// stateless handlers (the harness must not add shared state of its own in race mode)
func c14Echo(ctx erpc.CallCtx, arg *string) (*string, *erpc.Status) {
	r := "e:" + *arg
	return &r, nil
}
func c14Push(ctx erpc.PushCtx, arg *string) *erpc.Status { return nil }
func c14Err(ctx erpc.CallCtx, arg *string) (*string, *erpc.Status) {
	return nil, erpc.NewStatus(1000, "refused:"+*arg, "cause:"+*arg)
}

var c14Ops = []string{"call", "push", "setid", "swap", "close", "lookup", "range", "count", "ages", "srvcall", "rclose", "health", "async", "errcall", "errone"}

// c14Soup: 2-3 threads, each doing one documented-concurrent operation on shared sessions/peers.
// Used in race mode: the oracle is the race detector (exact per explored schedule).
func c14Soup(p Params) func() {
	proto := p.Get("proto", "raw")
	ops := []string{p.Get("a", "call"), p.Get("b", "call")}
	if c := p.Get("c", ""); c != "" {
		ops = append(ops, c)
	}
	return func() {
		begin()
		pf := world.Proto(proto)
		srv := world.NewPeer("json")
		hc := srv.RouteCallFunc(c14Echo)
		hp := srv.RoutePushFunc(c14Push)
		he := srv.SubRoute("/e").RouteCallFunc(c14Err)
		cli := world.NewPeer("json")
		chc := cli.RouteCallFunc(c14Echo)
		cs, ss, _ := world.Connect(cli, srv, pf)
		var ths []*vsched.Thread
		for i, op := range ops {
			i, op := i, op
			ths = append(ths, world.Go(fmt.Sprintf("%s%d", op, i), func() {
				switch op {
				case "call":
					var r string
					arg := fmt.Sprint("a", i)
					cs.Call(hc, &arg, &r)
				case "errcall":
					// calls answered with an error status; the caller keeps the commands and reads their status, reply
					// metadata and result later, while other goroutines keep using the session (whose reader recycles
					// its handler contexts and messages)
					var r1, r2 string
					arg := fmt.Sprint("a", i)
					cmd1 := cs.Call(he, &arg, &r1)
					cmd2 := cs.Call(he, &arg, &r2)
					vsched.Yield()
					for _, cmd := range []erpc.CallCmd{cmd1, cmd2} {
						st := cmd.Status()
						_, _, _ = st.Code(), st.Msg(), st.Cause()
						_ = st.String()
						if m := cmd.InputMeta(); m != nil {
							m.Len()
						}
					}
				case "errone":
					var r string
					arg := fmt.Sprint("e", i)
					cs.Call(he, &arg, &r)
				case "async":
					var r string
					arg := fmt.Sprint("a", i)
					cmd := cs.AsyncCall(hc, &arg, &r, make(chan erpc.CallCmd, 1))
					world.WaitDone(cmd)
					cmd.Reply()
				case "push":
					arg := fmt.Sprint("p", i)
					cs.Push(hp, &arg)
				case "setid":
					ss.SetID(fmt.Sprint("id", i))
				case "swap":
					cs.Swap().Store(fmt.Sprint("k", i), i)
					cs.Swap().Load("k0")
				case "close":
					cs.Close()
				case "rclose":
					ss.Close()
				case "lookup":
					srv.GetSession(ss.ID())
				case "range":
					srv.RangeSession(func(s erpc.Session) bool { s.ID(); s.Health(); return true })
				case "count":
					srv.CountSession()
				case "ages":
					cs.(erpc.PreSession).SetContextAge(0)
					cs.ContextAge()
					cs.SessionAge()
				case "srvcall":
					var r string
					arg := "s"
					ss.Call(chc, &arg, &r)
				case "health":
					cs.Health()
					ss.Health()
					cs.ID()
				}
			}))
		}
		joinAll(ths)
		cli.Close()
		srv.Close()
	}
}

// c14Dial: Dial on a redial-enabled peer while the server drops the fresh connection at once and another
// goroutine enumerates/uses the peer's sessions: the publication of the new session (reader goroutine, index)
// against everything Dial still does afterwards. Race mode.
func c14Dial(p Params) func() {
	b := p.Get("b", "range")
	after := p.Get("after", "none") // what the dialing goroutine does with the session afterwards
	return func() {
		begin()
		const addr = "10.0.0.1:9000"
		lis := vnet.Listen(addr)
		srv := world.NewPeer("json")
		hc := srv.RouteCallFunc(c14Echo)
		world.Go("acceptor", func() {
			c, err := lis.Accept()
			if err != nil {
				return
			}
			c.Close() // the server drops the first connection at once
			c2, err := lis.Accept()
			if err != nil {
				return
			}
			srv.ServeConn(c2)
		})
		cli := erpc.NewPeer(erpc.PeerConfig{DefaultBodyCodec: "json", RedialTimes: 1, RedialInterval: time.Millisecond})
		dialer := world.Go("dialer", func() {
			s, st := cli.Dial(addr)
			if !st.OK() {
				return
			}
			if after == "call" {
				var r string
				arg := "a"
				s.Call(hc, &arg, &r)
				s.Health()
			}
		})
		observer := world.Go("observer", func() {
			switch b {
			case "range":
				cli.RangeSession(func(s erpc.Session) bool { s.Health(); s.ID(); return true })
			case "count":
				cli.CountSession()
			case "push":
				cli.RangeSession(func(s erpc.Session) bool { arg := "p"; s.Push("/none", &arg); return true })
			}
		})
		vsched.Join(dialer)
		vsched.Join(observer)
		vsched.Quiesce()
		cli.Close()
		srv.Close()
	}
}
