package scen

import (
	"fmt"
	"time"

	erpc "github.com/henrylee2cn/erpc/v6"
	"github.com/henrylee2cn/erpc/v6/mixer/multiclient"
	"github.com/henrylee2cn/erpc/v6/plugin/proxy"

	"verif/shim/vnet"
	"verif/shim/vsched"
	"verif/world"
)

func init() { Sched["c19_multi"] = c19Multi }

// c19Multi: the proxy forwards through a mixer/multiclient session pool (the forwarder the README pairs with the
// proxy plugin). Every history of `depth` operations over {call, call during which the backend loses the
// proxy->backend connection after it has handled the request, push, the backend closes its side of the pooled
// connections while idle}. Oracles: a forwarded call runs the backend handler exactly once and returns the backend's
// answer, a call whose backend connection failed returns 502 Bad Gateway and is NOT forwarded a second time
// (C19); afterwards the predefined statuses are unchanged field by field (C15).
func c19Multi(p Params) func() {
	depth := p.Int("depth", 3)
	return func() {
		begin()
		before := sentinelTriples()
		const addr = "10.0.0.9:9000"
		lis := vnet.Listen(addr)
		be := world.NewPeer("json")
		ran := map[string]int{}
		cutNow, cutClean := false, false
		hCall := be.RouteCallFunc(func(ctx erpc.CallCtx, a *string) (*string, *erpc.Status) {
			ran[*a]++
			if cutNow {
				cutNow = false
				// the connection to the proxy is lost after the request was handled, before the reply is written
				for _, x := range vnet.Conns() {
					if x.LocalAddr().String() == addr && !x.IsClosed() && !x.Broken() {
						if cutClean {
							x.Close() // the proxy's side reads a clean end of stream
						} else {
							x.Break()
						}
					}
				}
			}
			r := "echo:" + *a
			return &r, nil
		})
		hPush := be.RoutePushFunc(func(ctx erpc.PushCtx, a *string) *erpc.Status {
			ran[*a]++
			return nil
		})
		vsched.Spawn("acceptloop", func() { erpc.VerifServeListener(be, lis) })
		fwdPeer := erpc.NewPeer(erpc.PeerConfig{DefaultBodyCodec: "json"})
		mc := multiclient.New(fwdPeer, addr, 2, time.Hour)
		px := world.NewPeer("json", proxy.NewPlugin(func(*proxy.Label) proxy.Forwarder { return mc }))
		cli := world.NewPeer("json")
		cs, _, _ := world.Connect(cli, px, nil)
		hist := ""
		for i := 0; i < depth; i++ {
			arg := fmt.Sprint("a", i)
			switch k := vsched.Choose(5, "op"); k {
			case 0, 1, 4:
				cut := k != 0
				cutClean = k == 4
				hist += []string{"call ", "call_cut ", "", "", "call_eof "}[k]
				cutNow = cut
				var r string
				st := cs.Call(hCall, &arg, &r).Status()
				vsched.Quiesce()
				cutNow = false
				if ran[arg] > 1 {
					vsched.Failf("the call was forwarded %d times to the backend | %s", ran[arg], hist)
				}
				if cut {
					if st.Code() != erpc.CodeBadGateway {
						vsched.Failf("the backend connection failed during the call, the caller got %s (result %q), want 502 Bad Gateway | %s", world.StatStr(st), r, hist)
					}
				} else if !st.OK() || r != "echo:"+arg || ran[arg] != 1 {
					vsched.Failf("proxied call got %s result %q, backend ran %d times; want OK %q once | %s", world.StatStr(st), r, ran[arg], "echo:"+arg, hist)
				}
			case 2:
				hist += "push "
				if st := cs.Push(hPush, &arg); !st.OK() {
					vsched.Failf("push to the proxy failed: %s | %s", world.StatStr(st), hist)
				}
				vsched.Quiesce()
				if ran[arg] != 1 {
					vsched.Failf("push forwarded %d times | %s", ran[arg], hist)
				}
			case 3:
				hist += "backend_closes_idle "
				be.RangeSession(func(s erpc.Session) bool { s.Close(); return true })
				vsched.Quiesce()
			}
		}
		// C15: whatever happened, the shared predefined statuses are what they were
		after := sentinelTriples()
		for name, b := range before {
			if a := after[name]; a != b {
				vsched.Failf("predefined status %s changed from %v to %v | %s", name, b, a, hist)
			}
		}
		var r string
		x, _, _ := world.Connect(world.NewPeer("json"), be, nil)
		x.Close()
		if st := x.Call(hCall, "z", &r).Status(); world.StatStr(st) != "(102|Connection Closed|)" {
			vsched.Failf("a call on a closed session reports %s after the history, want (102|Connection Closed|) | %s", world.StatStr(st), hist)
		}
		vsched.Logf("%s", hist)
		mc.Close()
	}
}
