package scen

import (
	"fmt"
	"strings"
	"time"

	erpc "github.com/henrylee2cn/erpc/v6"
	"github.com/henrylee2cn/erpc/v6/plugin/overloader"

	"verif/shim/vnet"
	"verif/shim/vsched"
	"verif/shim/vtime"
	"verif/world"
)

func init() {
	Sched["c18_hist"] = c18Hist
	Sched["c18_race"] = c18Race
	Sched["c18_qps"] = c18QPS
	Sched["c18_live"] = c18Live
}

// admitCounter sits behind the overloader in the plugin list: its PostAccept runs only for admitted connections.
type admitCounter struct {
	admitted, concurrent, maxConcurrent int
	bySess                              map[interface{}]bool
}

func (a *admitCounter) Name() string { return "admitcounter" }
func (a *admitCounter) PostAccept(s erpc.PreSession) *erpc.Status {
	vsched.Point(vsched.KOther, a, nil)
	if a.bySess == nil {
		a.bySess = map[interface{}]bool{}
	}
	a.bySess[interface{}(s)] = true
	a.admitted++
	a.concurrent++
	if a.concurrent > a.maxConcurrent {
		a.maxConcurrent = a.concurrent
	}
	return nil
}

// admitOut is registered in front of the overloader: its PostDisconnect runs before the overloader gives the slot back,
// so the harness never counts a session as live whose slot has already been released.
type admitOut struct{ a *admitCounter }

func (o *admitOut) Name() string { return "admitout" }
func (o *admitOut) PostDisconnect(s erpc.BaseSession) *erpc.Status {
	a := o.a
	vsched.Point(vsched.KOther, a, nil)
	if a.bySess[interface{}(s)] {
		delete(a.bySess, interface{}(s))
		a.concurrent--
	}
	return nil
}

type c18conn struct {
	raw  *vnet.Conn
	sc   *vnet.Conn
	sess erpc.Session
	live bool
}

// c18Hist: histories of connect / disconnect / limit updates against a counter model.
func c18Hist(p Params) func() {
	depth := p.Int("depth", 5)
	withOff := p.Get("off", "0") == "1" // the alphabet of limit updates includes 0 (no limit)
	return func() {
		begin()
		limit := 1 + vsched.Choose(2, "limit")
		ol := overloader.New(overloader.LimitConfig{MaxConn: int32(limit)})
		ac := &admitCounter{}
		srv := world.NewPeer("json", &admitOut{ac}, ol, ac)
		var conns []*c18conn
		liveN := 0
		hist := fmt.Sprintf("N=%d ", limit)
		for step := 0; step < depth; step++ {
			type op struct {
				n string
				f func()
			}
			ops := []op{{"connect", func() {
				raw, sc := vnet.Pipe(vnet.NewAddr(), vnet.NewAddr())
				sess, st := srv.ServeConn(sc)
				vsched.Quiesce()
				c := &c18conn{raw: raw, sc: sc, sess: sess}
				conns = append(conns, c)
				want := limit == 0 || liveN < limit // limit 0: the connection limit is switched off
				if want {
					if !st.OK() {
						vsched.Failf("connection refused although only %d of %d slots are in use (leaked slot) | %s", liveN, limit, hist)
					}
					c.live = true
					liveN++
				} else {
					if st.OK() {
						vsched.Failf("connection admitted although %d sessions are live and the limit is %d | %s", liveN, limit, hist)
					}
					if !sc.IsClosed() {
						vsched.Failf("rejected connection was not closed | %s", hist)
					}
				}
			}}}
			for i, c := range conns {
				i, c := i, c
				if c.live {
					ops = append(ops, op{fmt.Sprintf("rclose%d", i), func() { c.raw.Close(); c.live = false; liveN-- }})
					ops = append(ops, op{fmt.Sprintf("close%d", i), func() { c.sess.Close(); c.live = false; liveN-- }})
				}
			}
			lims := []int{1, 2, 3}
			if withOff {
				lims = []int{0, 1, 2, 3}
			}
			for _, n := range lims {
				n := n
				if n != limit {
					ops = append(ops, op{fmt.Sprintf("limit%d", n), func() {
						ol.Update(overloader.LimitConfig{MaxConn: int32(n)})
						limit = n
					}})
				}
			}
			k := vsched.Choose(len(ops), "op")
			hist += ops[k].n + " "
			ops[k].f()
			vsched.Quiesce()
			if srv.CountSession() != liveN {
				vsched.Failf("CountSession()=%d but %d admitted sessions are live | %s", srv.CountSession(), liveN, hist)
			}
		}
		vsched.Logf("%s", hist)
	}
}

// c18Race: concurrent connects and disconnects never exceed the limit.
func c18Race(p Params) func() {
	nthreads := p.Int("threads", 3)
	return func() {
		begin()
		limit := 1
		ol := overloader.New(overloader.LimitConfig{MaxConn: int32(limit)})
		ac := &admitCounter{}
		srv := world.NewPeer("json", &admitOut{ac}, ol, ac)
		var ths []*vsched.Thread
		results := make([]bool, nthreads)
		for i := 0; i < nthreads; i++ {
			i := i
			ths = append(ths, world.Go(fmt.Sprintf("conn%d", i), func() {
				raw, sc := vnet.Pipe(vnet.NewAddr(), vnet.NewAddr())
				sess, st := srv.ServeConn(sc)
				results[i] = st.OK()
				if st.OK() && i == 0 {
					// the first admitted connection goes away again while others are connecting
					_ = sess
					raw.Close()
				}
			}))
		}
		joinAll(ths)
		vsched.Quiesce()
		if ac.maxConcurrent > limit {
			vsched.Failf("%d sessions were admitted concurrently, the connection limit is %d", ac.maxConcurrent, limit)
		}
		// afterwards the limiter must be exact: close everything, then exactly `limit` fresh connections are admitted
		srv.RangeSession(func(s erpc.Session) bool { s.Close(); return true })
		vsched.Quiesce()
		ok := 0
		for i := 0; i < limit+1; i++ {
			_, sc := vnet.Pipe(vnet.NewAddr(), vnet.NewAddr())
			if _, st := srv.ServeConn(sc); st.OK() {
				ok++
			}
		}
		if ok != limit {
			vsched.Failf("after all sessions ended %d fresh connections were admitted, the limit is %d (slot leaked or released twice)", ok, limit)
		}
		vsched.Logf("%v", results)
	}
}

// fakeReadCtx is the minimal ReadCtx the overloader's header hook needs.
type fakeReadCtx struct {
	erpc.ReadCtx
	method string
}

func (f *fakeReadCtx) ServiceMethod() string { return f.method }

// c18QPS: the token bucket never admits more than capacity + refill per tick (+1 slack per tick).
// The plugin's header hook is driven directly by `takers` threads doing `takes` attempts each while
// the harness fires `ticks` refill ticks (the limiter's own goroutine consumes them).
func c18QPS(p Params) func() {
	takers := p.Int("takers", 1)
	takes := p.Int("takes", 6)
	nticks := p.Int("ticks", 1)
	capacity := p.Int("cap", 3)
	return func() {
		begin()
		// interval = 1s/capacity => refill per tick = capacity / capacity = 1
		ol := overloader.New(overloader.LimitConfig{MaxTotalQPS: int32(capacity), QPSInterval: time.Second / time.Duration(capacity)})
		refill := 1
		admitted := 0
		var ths []*vsched.Thread
		for i := 0; i < takers; i++ {
			ths = append(ths, world.Go(fmt.Sprintf("taker%d", i), func() {
				for k := 0; k < takes; k++ {
					st := ol.PostReadCallHeader(&fakeReadCtx{method: "/m"})
					vsched.Point(vsched.KOther, ol, nil)
					if st.OK() {
						admitted++
					}
				}
			}))
		}
		fired := 0
		ths = append(ths, world.Go("ticker", func() {
			for k := 0; k < nticks; k++ {
				for _, t := range vtime.Tickers() {
					if t.Fire() {
						fired++
					}
				}
				vsched.Yield()
			}
		}))
		joinAll(ths)
		vsched.Quiesce()
		bound := capacity + refill*fired + fired
		if admitted > bound {
			vsched.Failf("%d calls were admitted; capacity %d + refill %d x %d ticks + %d slack = %d", admitted, capacity, refill, fired, fired, bound)
		}
		vsched.Logf("admitted=%d fired=%d", admitted, fired)
	}
}

// c18Live: rate limits on a live session. Every history of calls and pushes to a route with a handler limit and
// to a route without one, and of refill ticks. Oracles: a call is reported OK exactly if its handler ran (and
// then the result is right), otherwise it carries an error status and the handler did not run; over every
// window of the history the number of admitted calls and pushes stays within capacity + refill + one per tick,
// for the total limit and for the handler limit.
func c18Live(p Params) func() {
	depth := p.Int("depth", 5)
	return func() {
		begin()
		const totalCap, handlerCap = 2, 1
		ol := overloader.New(overloader.LimitConfig{})
		srv := world.NewPeer("json", ol)
		ran := map[string]int{}
		hFree := srv.RouteCallFunc(func(ctx erpc.CallCtx, a *string) (*string, *erpc.Status) {
			ran["free"]++
			r := "free:" + *a
			return &r, nil
		})
		hLim := srv.SubRoute("/lim").RouteCallFunc(func(ctx erpc.CallCtx, a *string) (*string, *erpc.Status) {
			ran["lim"]++
			r := "lim:" + *a
			return &r, nil
		})
		hPush := srv.RoutePushFunc(func(ctx erpc.PushCtx, a *string) *erpc.Status {
			ran["push"]++
			return nil
		})
		// interval = 1s/cap: one token per tick for the total limit; the handler limit refills one per tick as well
		ol.Update(overloader.LimitConfig{MaxTotalQPS: totalCap, QPSInterval: time.Second / totalCap,
			MaxHandlerQPS: []overloader.HandlerLimit{{ServiceMethod: hLim, MaxQPS: handlerCap}}})
		cli := world.NewPeer("json")
		cs, _, _ := world.Connect(cli, srv, nil)
		type ev struct {
			tick, admitted, lim, other bool
			cap                        int // total capacity in effect after the event (a lowered capacity takes effect at the next refill tick)
		}
		curCap, effCap := totalCap, totalCap
		half := false
		hist := ""
		// upper bounds on the tokens that can be available (sequential history: exact refill, no slack):
		// full at the start, +1 per tick up to the capacity, -1 per admission; a rejection takes nothing
		tUB, hUB := totalCap, handlerCap
		admit := func(what string, lim bool) {
			if tUB == 0 {
				vsched.Failf("%s admitted although the bucket must be empty (capacity %d, every refill tick accounted for) | %s", what, effCap, hist)
			}
			tUB--
			if lim {
				if hUB == 0 {
					vsched.Failf("%s admitted although the handler's bucket must be empty (capacity %d) | %s", what, handlerCap, hist)
				}
				hUB--
			}
		}
		var evs []ev
		for i := 0; i < depth; i++ {
			switch k := vsched.Choose(6, "op"); k {
			case 0, 1:
				name, method, key := "call_free", hFree, "free"
				if k == 1 {
					name, method, key = "call_lim", hLim, "lim"
				}
				hist += name + " "
				before := ran[key]
				var r string
				arg := fmt.Sprint("a", i)
				st := cs.Call(method, &arg, &r).Status()
				vsched.Quiesce()
				did := ran[key] - before
				if st.OK() {
					if did != 1 || r != key+":"+arg {
						vsched.Failf("call reported OK but its handler ran %d times and the result is %q | %s", did, r, hist)
					}
				} else {
					world.Counter("calls_rejected")
					if did != 0 {
						vsched.Failf("call rejected with %s but its handler ran | %s", world.StatStr(st), hist)
					}
					if st.Code() != erpc.CodeInternalServerError || !strings.Contains(st.Msg(), "qps overload") {
						vsched.Failf("rejected call carries %s, want the overload error | %s", world.StatStr(st), hist)
					}
				}
				if st.OK() {
					admit(name, k == 1)
				}
				evs = append(evs, ev{admitted: st.OK(), lim: k == 1, cap: effCap})
			case 2:
				hist += "push "
				before := ran["push"]
				arg := "p"
				if st := cs.Push(hPush, &arg); !st.OK() {
					vsched.Failf("push failed locally: %s | %s", world.StatStr(st), hist)
				}
				vsched.Quiesce()
				did := ran["push"] - before
				if did > 1 {
					vsched.Failf("push handled %d times | %s", did, hist)
				}
				if did == 0 {
					world.Counter("pushes_dropped")
				}
				if did == 1 {
					admit("push", false)
				}
				evs = append(evs, ev{admitted: did == 1, cap: effCap})
			case 4:
				// the refill interval is changed (same capacities, still one token per tick): the limiters restart
				// their tickers, and from now on one tick still means one refill
				hist += "reinterval "
				half = !half
				iv := time.Second / totalCap
				if half {
					iv = time.Second / (2 * totalCap)
				}
				ol.Update(overloader.LimitConfig{MaxTotalQPS: int32(curCap), QPSInterval: iv,
					MaxHandlerQPS: []overloader.HandlerLimit{{ServiceMethod: hLim, MaxQPS: handlerCap}}})
				vsched.Quiesce()
				evs = append(evs, ev{other: true, cap: effCap})
			case 5:
				// the total limit is lowered to 1 / raised back to 2 (still one token per tick). A raised capacity
				// fills up tick by tick; tokens above a lowered capacity are gone at the latest after the next tick.
				hist += "relimit "
				if curCap == totalCap {
					curCap = 1
				} else {
					curCap = totalCap
				}
				iv := time.Second / totalCap
				if half {
					iv = time.Second / (2 * totalCap)
				}
				ol.Update(overloader.LimitConfig{MaxTotalQPS: int32(curCap), QPSInterval: iv,
					MaxHandlerQPS: []overloader.HandlerLimit{{ServiceMethod: hLim, MaxQPS: handlerCap}}})
				vsched.Quiesce()
				evs = append(evs, ev{other: true, cap: effCap})
			case 3:
				hist += "tick "
				for _, t := range vtime.Tickers() {
					t.Fire()
				}
				vsched.Quiesce()
				effCap = curCap
				if tUB++; tUB > effCap {
					tUB = effCap
				}
				if hUB < handlerCap {
					hUB++
				}
				evs = append(evs, ev{tick: true, cap: effCap})
			}
		}
		// every window of the history
		for a := 0; a < len(evs); a++ {
			ticks, tot, lim := 0, 0, 0
			maxCap := totalCap
			if a > 0 {
				maxCap = evs[a-1].cap
			}
			for b := a; b < len(evs); b++ {
				if evs[b].cap > maxCap {
					maxCap = evs[b].cap
				}
				switch e := evs[b]; {
				case e.tick:
					ticks++
				case e.admitted:
					tot++
					if e.lim {
						lim++
					}
				}
				// the history is sequential (every operation runs to quiescence), so no slack for a take racing a refill
				if tot > maxCap+ticks {
					vsched.Failf("%d calls/pushes admitted in a window with %d refill ticks; capacity %d + 1 per tick | window %d..%d of %s", tot, ticks, maxCap, a, b, hist)
				}
				if lim > handlerCap+ticks {
					vsched.Failf("%d calls admitted to the limited route in a window with %d refill ticks; handler capacity %d | window %d..%d of %s", lim, ticks, handlerCap, a, b, hist)
				}
			}
		}
		if !evs[0].tick && !evs[0].other && !evs[0].admitted {
			vsched.Failf("the first message was rejected although the bucket is full | %s", hist)
		}
		vsched.Logf("%s", hist)
	}
}

func init() { Sched["c18_redial"] = c18Redial }

// c18Redial: the connection limit on a dialing peer whose sessions redial. History over {dial a further session,
// the server cuts the connection of session i (auto-redial, server reachable), close session i}; limit N in {1,2}.
// A session that reconnects keeps the one slot it holds: it survives every loss (the server is reachable and the
// budget is per outage), never takes a second slot and never gives its slot away while it lives. At every quiescent
// point: live admitted sessions <= N, a dial is admitted iff live < N, every admitted session that was not closed is
// healthy and answers a call.
func c18Redial(p Params) func() {
	depth := p.Int("depth", 4)
	return func() {
		begin()
		n := 1 + vsched.Choose(2, "limit")
		const addr = "10.0.0.1:9000"
		lis := vnet.Listen(addr)
		srv := world.NewPeer("json")
		h := srv.RouteCallFunc(func(ctx erpc.CallCtx, a *string) (*string, *erpc.Status) {
			r := "r:" + *a
			return &r, nil
		})
		vsched.Spawn("acceptloop", func() { erpc.VerifServeListener(srv, lis) })
		ol := overloader.New(overloader.LimitConfig{MaxConn: int32(n)})
		cli := erpc.NewPeer(erpc.PeerConfig{DefaultBodyCodec: "json", RedialTimes: 2, RedialInterval: time.Millisecond}, ol)
		var live []erpc.Session
		hist := fmt.Sprintf("limit=%d:", n)
		check := func() {
			vsched.Quiesce()
			if len(live) > n {
				vsched.Failf("%d sessions admitted at once with a connection limit of %d | %s", len(live), n, hist)
			}
			for i, s := range live {
				if !s.Health() {
					vsched.Failf("admitted session %d did not survive (unhealthy although the server is reachable and it holds a slot) | %s", i, hist)
				}
				var r string
				if st := s.Call(h, "x", &r).Status(); !st.OK() || r != "r:x" {
					vsched.Failf("call on admitted session %d failed: %s | %s", i, world.StatStr(st), hist)
				}
			}
			if c := cli.CountSession(); c != len(live) {
				vsched.Failf("the dialing peer lists %d sessions, %d are live (%v) | %s", c, len(live), sessionsOf(cli), hist)
			}
		}
		for i := 0; i < depth; i++ {
			switch k := vsched.Choose(3, "op"); k {
			case 0:
				hist += " dial"
				s, st := cli.Dial(addr)
				vsched.Quiesce()
				if len(live) < n {
					if !st.OK() {
						vsched.Failf("dial rejected (%s) although only %d of %d slots are taken | %s", world.StatStr(st), len(live), n, hist)
					}
					live = append(live, s)
				} else if st.OK() {
					vsched.Failf("dial admitted although all %d slots are taken by live sessions | %s", n, hist)
				}
			case 1:
				if len(live) == 0 {
					hist += " -"
					continue
				}
				j := vsched.Choose(len(live), "which")
				hist += fmt.Sprintf(" cut%d", j)
				// the server side of that session's current connection is cut
				want := live[j].LocalAddr().String()
				for _, x := range vnet.Conns() {
					if x.LocalAddr().String() == addr && x.RemoteAddr().String() == want && !x.IsClosed() && !x.Broken() {
						x.Break()
					}
				}
			case 2:
				if len(live) == 0 {
					hist += " -"
					continue
				}
				j := vsched.Choose(len(live), "which")
				hist += fmt.Sprintf(" close%d", j)
				live[j].Close()
				live = append(live[:j], live[j+1:]...)
			}
			check()
		}
		vsched.Logf("%s", hist)
	}
}
