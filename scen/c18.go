package scen

import (
	"fmt"
	"time"

	erpc "github.com/henrylee2cn/erpc/v6"
	"github.com/henrylee2cn/erpc/v6/plugin/overloader"

	"verif/shim/vnet"
	"verif/shim/vsched"
	"verif/shim/vtime"
	"verif/world"
)

func init() {
	Sched["c18_hist"] = c18Hist
	Sched["c18_race"] = c18Race
	Sched["c18_qps"] = c18QPS
}

// admitCounter sits behind the overloader in the plugin list: its PostAccept runs only for admitted connections.
type admitCounter struct {
	admitted, concurrent, maxConcurrent int
	bySess                              map[interface{}]bool
}

func (a *admitCounter) Name() string { return "admitcounter" }
func (a *admitCounter) PostAccept(s erpc.PreSession) *erpc.Status {
	vsched.Point(vsched.KOther, a, nil)
	if a.bySess == nil {
		a.bySess = map[interface{}]bool{}
	}
	a.bySess[interface{}(s)] = true
	a.admitted++
	a.concurrent++
	if a.concurrent > a.maxConcurrent {
		a.maxConcurrent = a.concurrent
	}
	return nil
}

// admitOut is registered in front of the overloader: its PostDisconnect runs before the overloader gives the slot back,
// so the harness never counts a session as live whose slot has already been released.
type admitOut struct{ a *admitCounter }

func (o *admitOut) Name() string { return "admitout" }
func (o *admitOut) PostDisconnect(s erpc.BaseSession) *erpc.Status {
	a := o.a
	vsched.Point(vsched.KOther, a, nil)
	if a.bySess[interface{}(s)] {
		delete(a.bySess, interface{}(s))
		a.concurrent--
	}
	return nil
}

type c18conn struct {
	raw  *vnet.Conn
	sc   *vnet.Conn
	sess erpc.Session
	live bool
}

// c18Hist: histories of connect / disconnect / limit updates against a counter model.
func c18Hist(p Params) func() {
	depth := p.Int("depth", 5)
	withOff := p.Get("off", "0") == "1" // the alphabet of limit updates includes 0 (no limit)
	return func() {
		begin()
		limit := 1 + vsched.Choose(2, "limit")
		ol := overloader.New(overloader.LimitConfig{MaxConn: int32(limit)})
		ac := &admitCounter{}
		srv := world.NewPeer("json", &admitOut{ac}, ol, ac)
		var conns []*c18conn
		liveN := 0
		hist := fmt.Sprintf("N=%d ", limit)
		for step := 0; step < depth; step++ {
			type op struct {
				n string
				f func()
			}
			ops := []op{{"connect", func() {
				raw, sc := vnet.Pipe(vnet.NewAddr(), vnet.NewAddr())
				sess, st := srv.ServeConn(sc)
				vsched.Quiesce()
				c := &c18conn{raw: raw, sc: sc, sess: sess}
				conns = append(conns, c)
				want := limit == 0 || liveN < limit // limit 0: the connection limit is switched off
				if want {
					if !st.OK() {
						vsched.Failf("connection refused although only %d of %d slots are in use (leaked slot) | %s", liveN, limit, hist)
					}
					c.live = true
					liveN++
				} else {
					if st.OK() {
						vsched.Failf("connection admitted although %d sessions are live and the limit is %d | %s", liveN, limit, hist)
					}
					if !sc.IsClosed() {
						vsched.Failf("rejected connection was not closed | %s", hist)
					}
				}
			}}}
			for i, c := range conns {
				i, c := i, c
				if c.live {
					ops = append(ops, op{fmt.Sprintf("rclose%d", i), func() { c.raw.Close(); c.live = false; liveN-- }})
					ops = append(ops, op{fmt.Sprintf("close%d", i), func() { c.sess.Close(); c.live = false; liveN-- }})
				}
			}
			lims := []int{1, 2, 3}
			if withOff {
				lims = []int{0, 1, 2, 3}
			}
			for _, n := range lims {
				n := n
				if n != limit {
					ops = append(ops, op{fmt.Sprintf("limit%d", n), func() {
						ol.Update(overloader.LimitConfig{MaxConn: int32(n)})
						limit = n
					}})
				}
			}
			k := vsched.Choose(len(ops), "op")
			hist += ops[k].n + " "
			ops[k].f()
			vsched.Quiesce()
			if srv.CountSession() != liveN {
				vsched.Failf("CountSession()=%d but %d admitted sessions are live | %s", srv.CountSession(), liveN, hist)
			}
		}
		vsched.Logf("%s", hist)
	}
}

// c18Race: concurrent connects and disconnects never exceed the limit.
func c18Race(p Params) func() {
	nthreads := p.Int("threads", 3)
	return func() {
		begin()
		limit := 1
		ol := overloader.New(overloader.LimitConfig{MaxConn: int32(limit)})
		ac := &admitCounter{}
		srv := world.NewPeer("json", &admitOut{ac}, ol, ac)
		var ths []*vsched.Thread
		results := make([]bool, nthreads)
		for i := 0; i < nthreads; i++ {
			i := i
			ths = append(ths, world.Go(fmt.Sprintf("conn%d", i), func() {
				raw, sc := vnet.Pipe(vnet.NewAddr(), vnet.NewAddr())
				sess, st := srv.ServeConn(sc)
				results[i] = st.OK()
				if st.OK() && i == 0 {
					// the first admitted connection goes away again while others are connecting
					_ = sess
					raw.Close()
				}
			}))
		}
		joinAll(ths)
		vsched.Quiesce()
		if ac.maxConcurrent > limit {
			vsched.Failf("%d sessions were admitted concurrently, the connection limit is %d", ac.maxConcurrent, limit)
		}
		// afterwards the limiter must be exact: close everything, then exactly `limit` fresh connections are admitted
		srv.RangeSession(func(s erpc.Session) bool { s.Close(); return true })
		vsched.Quiesce()
		ok := 0
		for i := 0; i < limit+1; i++ {
			_, sc := vnet.Pipe(vnet.NewAddr(), vnet.NewAddr())
			if _, st := srv.ServeConn(sc); st.OK() {
				ok++
			}
		}
		if ok != limit {
			vsched.Failf("after all sessions ended %d fresh connections were admitted, the limit is %d (slot leaked or released twice)", ok, limit)
		}
		vsched.Logf("%v", results)
	}
}

// fakeReadCtx is the minimal ReadCtx the overloader's header hook needs.
type fakeReadCtx struct {
	erpc.ReadCtx
	method string
}

func (f *fakeReadCtx) ServiceMethod() string { return f.method }

// c18QPS: the token bucket never admits more than capacity + refill per tick (+1 slack per tick).
// The plugin's header hook is driven directly by `takers` threads doing `takes` attempts each while
// the harness fires `ticks` refill ticks (the limiter's own goroutine consumes them).
func c18QPS(p Params) func() {
	takers := p.Int("takers", 1)
	takes := p.Int("takes", 6)
	nticks := p.Int("ticks", 1)
	capacity := p.Int("cap", 3)
	return func() {
		begin()
		// interval = 1s/capacity => refill per tick = capacity / capacity = 1
		ol := overloader.New(overloader.LimitConfig{MaxTotalQPS: int32(capacity), QPSInterval: time.Second / time.Duration(capacity)})
		refill := 1
		admitted := 0
		var ths []*vsched.Thread
		for i := 0; i < takers; i++ {
			ths = append(ths, world.Go(fmt.Sprintf("taker%d", i), func() {
				for k := 0; k < takes; k++ {
					st := ol.PostReadCallHeader(&fakeReadCtx{method: "/m"})
					vsched.Point(vsched.KOther, ol, nil)
					if st.OK() {
						admitted++
					}
				}
			}))
		}
		fired := 0
		ths = append(ths, world.Go("ticker", func() {
			for k := 0; k < nticks; k++ {
				for _, t := range vtime.Tickers() {
					if t.Fire() {
						fired++
					}
				}
				vsched.Yield()
			}
		}))
		joinAll(ths)
		vsched.Quiesce()
		bound := capacity + refill*fired + fired
		if admitted > bound {
			vsched.Failf("%d calls were admitted; capacity %d + refill %d x %d ticks + %d slack = %d", admitted, capacity, refill, fired, fired, bound)
		}
		vsched.Logf("admitted=%d fired=%d", admitted, fired)
	}
}
