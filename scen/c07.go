package scen

import (
	"fmt"
	"sort"

	erpc "github.com/henrylee2cn/erpc/v6"

	"verif/shim/vnet"
	"verif/shim/vsched"
	"verif/world"
)

func init() {
	Sched["c07_hist"] = c07Hist
	Sched["c07_race"] = c07Race
}

// acceptGate is an accept/dial hook that rejects while Reject is set.
// acceptGate may first name the session (as an authentication plugin does with the claimed identity) and then reject it.
type acceptGate struct {
	Reject bool
	SetID  string
}

func (a *acceptGate) Name() string { return "acceptgate" }
func (a *acceptGate) PostAccept(s erpc.PreSession) *erpc.Status {
	if a.SetID != "" {
		s.SetID(a.SetID)
	}
	if a.Reject {
		return erpc.NewStatus(401, "rejected by hook", "")
	}
	return nil
}

type c07slot struct {
	used        bool
	live        bool
	established bool
	id          string
	ss, cs      erpc.Session // server-side and client-side session
	link        *world.Link
	ids         []string // every id this slot's server session ever had
}

type c07world struct {
	srv, cli   erpc.Peer
	gate       *acceptGate
	disc       *DiscCounter
	slots      []*c07slot
	handled    map[string]int
	srvClosed  bool
	handlerRan int

	srvEcho, cliEcho, cliPush string
}

func (w *c07world) expectedIndex() map[string]*c07slot {
	m := map[string]*c07slot{}
	for _, s := range w.slots {
		if s.live {
			m[s.id] = s
		}
	}
	return m
}

// check evaluates the C07 invariants in a quiescent state.
func (w *c07world) check(after string) {
	exp := w.expectedIndex()
	// every id ever used resolves to exactly the live session that currently owns it
	allIDs := map[string]bool{}
	for _, s := range w.slots {
		for _, id := range s.ids {
			allIDs[id] = true
		}
	}
	for id := range allIDs {
		got, ok := w.srv.GetSession(id)
		want := exp[id]
		if want == nil {
			if ok {
				vsched.Failf("GetSession(%q) returns a session but no live session owns that id | after %s", id, after)
			}
			continue
		}
		if !ok {
			vsched.Failf("live session with id %q is missing from the index (GetSession not found) | after %s", id, after)
		}
		if got != want.ss {
			vsched.Failf("GetSession(%q) returns a different session than the live owner of the id | after %s", id, after)
		}
	}
	var wantIDs []string
	for id := range exp {
		wantIDs = append(wantIDs, id)
	}
	sort.Strings(wantIDs)
	if got := sessionsOf(w.srv); fmt.Sprint(got) != fmt.Sprint(wantIDs) {
		vsched.Failf("RangeSession lists %v, live sessions are %v | after %s", got, wantIDs, after)
	}
	if n := w.srv.CountSession(); n != len(wantIDs) {
		vsched.Failf("CountSession()=%d but %d sessions are live | after %s", n, len(wantIDs), after)
	}
	for i, s := range w.slots {
		if !s.used || s.ss == nil {
			continue
		}
		if h := s.ss.Health(); h != s.live {
			vsched.Failf("slot %d Health()=%v, model says live=%v (status %s) | after %s", i, h, s.live, erpc.VerifStatusName(erpc.VerifStatus(s.ss)), after)
		}
		if cn := closedNotify(s.ss); cn != !s.live {
			vsched.Failf("slot %d CloseNotify fired=%v, model says gone=%v | after %s", i, cn, !s.live, after)
		}
		n := w.disc.N[s.ss.(erpc.BaseSession)]
		if s.live && n != 0 {
			vsched.Failf("slot %d is live but PostDisconnect ran %d times | after %s", i, n, after)
		}
		if !s.live && s.established && n != 1 {
			vsched.Failf("slot %d (established, ended) PostDisconnect ran %d times, want exactly 1 | after %s", i, n, after)
		}
		if !s.live {
			// calls and pushes on a gone session fail fast with connection closed and write nothing
			before := len(s.link.B.Written)
			h0 := w.handlerRan
			var r string
			st := s.ss.Call(w.cliEcho, "x", &r).Status()
			if st.Code() != erpc.CodeConnClosed {
				vsched.Failf("Call on ended session %d returned %s, want 102 | after %s", i, world.StatStr(st), after)
			}
			st = s.ss.Push(w.cliPush, "x")
			if st.Code() != erpc.CodeConnClosed {
				vsched.Failf("Push on ended session %d returned %s, want 102 | after %s", i, world.StatStr(st), after)
			}
			vsched.Quiesce()
			if len(s.link.B.Written) != before {
				vsched.Failf("call/push on ended session %d wrote %d bytes to the wire | after %s", i, len(s.link.B.Written)-before, after)
			}
			if w.handlerRan != h0 {
				vsched.Failf("a handler ran for a call on ended session %d | after %s", i, after)
			}
		}
	}
}

func c07Hist(p Params) func() {
	depth := p.Int("depth", 3)
	nslots := p.Int("slots", 2)
	return func() {
		begin()
		w := &c07world{gate: &acceptGate{}, disc: &DiscCounter{}, handled: map[string]int{}}
		w.srv = world.NewPeer("json", w.gate, w.disc)
		w.srvEcho = w.srv.RouteCallFunc(func(ctx erpc.CallCtx, arg *string) (*string, *erpc.Status) {
			w.handlerRan++
			r := "srv:" + *arg
			return &r, nil
		})
		w.cli = world.NewPeer("json")
		w.cliEcho = w.cli.RouteCallFunc(func(ctx erpc.CallCtx, arg *string) (*string, *erpc.Status) {
			w.handlerRan++
			r := "cli:" + *arg
			return &r, nil
		})
		w.cliPush = w.cli.RoutePushFunc(func(ctx erpc.PushCtx, arg *string) *erpc.Status {
			w.handlerRan++
			return nil
		})
		for i := 0; i < nslots; i++ {
			w.slots = append(w.slots, &c07slot{})
		}
		hist := ""
		for step := 0; step < depth; step++ {
			type op struct {
				name string
				run  func()
			}
			var ops []op
			for i, s := range w.slots {
				i, s := i, s
				if !s.used && !w.srvClosed {
					ops = append(ops, op{fmt.Sprintf("accept%d", i), func() { w.accept(i, false) }})
					ops = append(ops, op{fmt.Sprintf("reject%d", i), func() { w.accept(i, true) }})
					ops = append(ops, op{fmt.Sprintf("rejectnamed%d", i), func() {
						// the hook names the session, then rejects it: the name must not stay in the index
						w.gate.SetID = fmt.Sprintf("claimed%d", i)
						s.ids = append(s.ids, w.gate.SetID)
						w.accept(i, true)
						w.gate.SetID = ""
					}})
				}
				if s.live {
					ops = append(ops, op{fmt.Sprintf("setidX%d", i), func() { w.setID(i, "X") }})
					ops = append(ops, op{fmt.Sprintf("setidOwn%d", i), func() { w.setID(i, fmt.Sprintf("own%d", i)) }})
					ops = append(ops, op{fmt.Sprintf("call%d", i), func() { w.call(i) }})
					ops = append(ops, op{fmt.Sprintf("close%d", i), func() { s.ss.Close(); s.live = false }})
					ops = append(ops, op{fmt.Sprintf("rclose%d", i), func() { s.cs.Close(); s.live = false }})
					ops = append(ops, op{fmt.Sprintf("cut%d", i), func() { s.link.A.Break(); s.live = false }})
				}
			}
			if !w.srvClosed {
				ops = append(ops, op{"peerclose", func() {
					w.srv.Close()
					w.srvClosed = true
					for _, s := range w.slots {
						s.live = false
					}
				}})
			}
			if len(ops) == 0 {
				break
			}
			k := vsched.Choose(len(ops), "op")
			hist += ops[k].name + " "
			ops[k].run()
			vsched.Quiesce()
			w.check(hist)
		}
		vsched.Logf("hist=%s", hist)
		world.Counter("histories")
	}
}

func (w *c07world) accept(i int, reject bool) {
	s := w.slots[i]
	s.used = true
	ca, cb := vnet.Pipe(vnet.NewAddr(), vnet.NewAddr())
	s.link = &world.Link{A: ca, B: cb}
	cs, st := w.cli.ServeConn(ca)
	if !st.OK() {
		vsched.Failf("client ServeConn: %v", st)
	}
	s.cs = cs
	w.gate.Reject = reject
	ss, st := w.srv.ServeConn(cb)
	w.gate.Reject = false
	if reject {
		if st.OK() || ss != nil {
			vsched.Failf("accept hook rejected but ServeConn returned a session")
		}
		// a rejected connection must be closed and never indexed
		vsched.Quiesce()
		if !cb.IsClosed() {
			vsched.Failf("connection rejected by the accept hook was not closed")
		}
		s.live = false
		return
	}
	if !st.OK() {
		vsched.Failf("ServeConn: %v", st)
	}
	s.ss = ss
	s.live = true
	s.established = true
	s.id = ss.ID()
	s.ids = append(s.ids, s.id)
}

func (w *c07world) setID(i int, id string) {
	s := w.slots[i]
	for j, o := range w.slots {
		if j != i && o.live && o.id == id {
			o.live = false // a newer session takes over the id, which closes the older one
		}
	}
	s.ss.SetID(id)
	s.id = id
	s.ids = append(s.ids, id)
}

func (w *c07world) call(i int) {
	s := w.slots[i]
	var r string
	if st := s.cs.Call(w.srvEcho, "q", &r).Status(); !st.OK() || r != "srv:q" {
		vsched.Failf("call on live session %d (client->server) failed: %s result %q", i, world.StatStr(st), r)
	}
	var r2 string
	if st := s.ss.Call(w.cliEcho, "q", &r2).Status(); !st.OK() || r2 != "cli:q" {
		vsched.Failf("call on live session %d (server->client) failed: %s result %q", i, world.StatStr(st), r2)
	}
}

// c07Race: a local Close racing a remote close / cut / takeover, with a status-transition observer.
func c07Race(p Params) func() {
	kind := p.Get("kind", "close_vs_rclose")
	return func() {
		begin()
		disc := &DiscCounter{}
		srv := world.NewPeer("json", disc)
		srv.RouteCallFunc(echoHandler)
		// the remote ends are plain connections (no client peer): fewer threads, same server-side behaviour
		raw1, c1 := vnet.Pipe(vnet.NewAddr(), vnet.NewAddr())
		ss, st := srv.ServeConn(c1)
		if !st.OK() {
			vsched.Failf("ServeConn: %v", st)
		}
		var ss2 erpc.Session
		two := kind == "takeover_vs_close" || kind == "setid_vs_setid" || kind == "rename_vs_takeover"
		if two {
			_, c2 := vnet.Pipe(vnet.NewAddr(), vnet.NewAddr())
			if ss2, st = srv.ServeConn(c2); !st.OK() {
				vsched.Failf("ServeConn: %v", st)
			}
		}
		// observer: the server-side session may never report healthy again once it was unhealthy
		wasDown := false
		vsched.X().StepHook = func() {
			st := erpc.VerifStatus(ss)
			up := st == 1
			if !up {
				wasDown = true
			} else if wasDown {
				x := vsched.X()
				x.StepHook = nil
				vsched.Failf("session became healthy again after it had left the ok state")
			}
		}
		var ths []*vsched.Thread
		switch kind {
		case "close_vs_rclose":
			ths = append(ths, world.Go("close", func() { ss.Close() }))
			ths = append(ths, world.Go("rclose", func() { raw1.Close() }))
		case "close_vs_cut":
			ths = append(ths, world.Go("close", func() { ss.Close() }))
			ths = append(ths, world.Go("cut", func() { raw1.Break() }))
		case "close_vs_close":
			ths = append(ths, world.Go("close1", func() { ss.Close() }))
			ths = append(ths, world.Go("close2", func() { ss.Close() }))
		case "takeover_vs_close":
			// two sessions take the same id while one of them is being closed
			ths = append(ths, world.Go("setid1", func() { ss.SetID("X") }))
			ths = append(ths, world.Go("setid2", func() { ss2.SetID("X") }))
			ths = append(ths, world.Go("rclose", func() { raw1.Close() }))
		case "setid_vs_setid":
			ths = append(ths, world.Go("setid1", func() { ss.SetID("X") }))
			ths = append(ths, world.Go("setid2", func() { ss2.SetID("X") }))
		case "rename_vs_takeover":
			// one session moves away from its id while the other one takes that id over
			old := ss.ID()
			ths = append(ths, world.Go("rename", func() { ss.SetID("Y") }))
			ths = append(ths, world.Go("takeover", func() { ss2.SetID(old) }))
		}
		joinAll(ths)
		vsched.Quiesce()
		vsched.X().StepHook = nil
		// quiescent oracle
		live := map[string]erpc.Session{}
		for _, s := range []erpc.Session{ss, ss2} {
			if s == nil {
				continue
			}
			n := disc.N[s.(erpc.BaseSession)]
			if s.Health() {
				if closedNotify(s) {
					vsched.Failf("%s: healthy session has its close notification fired", kind)
				}
				if n != 0 {
					vsched.Failf("%s: healthy session saw %d PostDisconnect calls", kind, n)
				}
				if o, dup := live[s.ID()]; dup && o != s {
					vsched.Failf("%s: two healthy sessions share id %q", kind, s.ID())
				}
				live[s.ID()] = s
			} else {
				if !closedNotify(s) {
					vsched.Failf("%s: ended session has not fired its close notification", kind)
				}
				if n != 1 {
					vsched.Failf("%s: PostDisconnect ran %d times for an established session that ended, want exactly 1", kind, n)
				}
			}
		}
		if two {
			// exactly the healthy sessions are indexed, under their current ids
			for id, s := range live {
				got, ok := srv.GetSession(id)
				if !ok || got != s {
					vsched.Failf("%s: healthy session %q not found in the index | index=%v", kind, id, sessionsOf(srv))
				}
			}
			dead := 0
			srv.RangeSession(func(s erpc.Session) bool {
				if !s.Health() {
					dead++
				}
				return true
			})
			if dead > 0 {
				vsched.Failf("%s: %d ended session(s) still listed in the index | index=%v ss(id=%s health=%v) ss2(id=%s health=%v)", kind, dead, sessionsOf(srv), ss.ID(), ss.Health(), ss2.ID(), ss2.Health())
			}
			if n := srv.CountSession(); n != len(live) {
				vsched.Failf("%s: CountSession()=%d, healthy sessions=%d | index=%v", kind, n, len(live), sessionsOf(srv))
			}
			if kind == "setid_vs_setid" && len(live) != 1 {
				vsched.Failf("%s: %d sessions remain healthy under the contested id, want exactly 1", kind, len(live))
			}
		} else if n := srv.CountSession(); n != 0 {
			vsched.Failf("%s: CountSession()=%d after the only session ended", kind, n)
		}
		vsched.Logf("%s st=%s n=%d", kind, erpc.VerifStatusName(erpc.VerifStatus(ss)), disc.N[ss.(erpc.BaseSession)])
		srv.Close()
		vsched.Quiesce()
		if l := vsched.Live(); l != 0 {
			vsched.Failf("%s: %d goroutines still blocked after both peers were closed: %s", kind, l, vsched.BlockedDesc())
		}
	}
}
