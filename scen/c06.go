package scen

import (
	"bytes"
	"encoding/binary"
	"fmt"
	"runtime"

	erpc "github.com/henrylee2cn/erpc/v6"
	"github.com/henrylee2cn/erpc/v6/socket"

	"verif/shim/vnet"
	"verif/shim/vsched"
	"verif/world"
)

func init() { Sched["c06"] = c06 }

// validFrames packs a small message alphabet with the real protocol (request direction).
func validFrames(proto string, method string) [][]byte {
	msgs := []mmsg{
		{Seq: 1, Mtype: 1, Method: method, Codec: 'j', Body: []byte(`"x"`)},
		{Seq: 2, Mtype: 3, Method: method, Codec: 'j', Body: []byte(`"p"`), Meta: [][2]string{{"k", "v"}}},
		{Seq: 3, Mtype: 2, Method: "", Stat: [3]string{"500", "m", "c"}},
		{Seq: 4, Mtype: 1, Method: method, Codec: 'j', Body: bytes.Repeat([]byte("z"), 40), Pipe: []byte{'g'}},
	}
	var out [][]byte
	for _, m := range msgs {
		if proto == "http" && (m.Mtype == 3) {
			continue
		}
		rw := &memRW{}
		if err := world.Proto(proto)(rw).Pack(build(m)); err == nil {
			out = append(out, append([]byte{}, rw.w.Bytes()...))
		}
	}
	return out
}

var c06Alphabets = map[string][]byte{
	"raw":    {0x00, 0x01, 0x05, 0x7f, 0xff, '1', 0x10},
	"json":   {0x00, 0x01, 0x10, 0xff, '{', '"', '}'},
	"pb":     {0x00, 0x01, 0x08, 0x0a, 0x12, 0xff, 0x7f},
	"thrift": {0x00, 0x01, 0x0f, 0xff, 0x80, 0x10, 0x0b},
	"http":   {'P', 'O', ' ', '/', '\r', '\n', ':'},
}

// c06: no received byte sequence crashes, wedges or over-allocates a peer.
//
//	class = alphabet | prefix | subst | length
func c06(p Params) func() {
	proto := p.Get("proto", "raw")
	class := p.Get("class", "prefix")
	maxLen := p.Int("len", 4)
	limit := uint32(p.Int("limit", 1024))
	pending := p.Get("pending", "0") == "1"
	// detail=1: the attacked peer logs every message in detail (PrintDetail, run log enabled) and serves unknown
	// routes through unknown-call/unknown-push handlers (raw byte bodies): the logging path sees the hostile bytes too
	detail := p.Get("detail", "0") == "1"
	return func() {
		begin()
		vsched.Tag("proto=" + proto + " class=" + class)
		socket.SetMessageSizeLimit(limit)
		pf := world.Proto(proto)
		srv := world.NewPeer("json")
		if detail {
			erpc.SetLoggerLevel2(erpc.DEBUG) // the harness's outputter discards everything below CRITICAL
			defer erpc.SetLoggerLevel2(erpc.CRITICAL)
			srv = erpc.NewPeer(erpc.PeerConfig{DefaultBodyCodec: "json", PrintDetail: true, CountTime: true})
			srv.SetUnknownCall(func(ctx erpc.UnknownCallCtx) (interface{}, *erpc.Status) { return ctx.InputBodyBytes(), nil })
			srv.SetUnknownPush(func(ctx erpc.UnknownPushCtx) *erpc.Status { return nil })
		}
		handled := 0
		hc := srv.RouteCallFunc(func(ctx erpc.CallCtx, a *string) (*string, *erpc.Status) { handled++; return a, nil })
		srv.RoutePushFunc(func(ctx erpc.PushCtx, a *string) *erpc.Status { handled++; return nil })
		// control session: a real client on a second connection
		cli := world.NewPeer("json")
		ctl, _, _ := world.Connect(cli, srv, pf)
		raw, sc := vnet.Pipe(vnet.NewAddr(), vnet.NewAddr())
		sess, st := srv.ServeConn(sc, pf)
		if !st.OK() {
			vsched.Failf("ServeConn: %v", st)
		}
		// the session under attack may itself have a call waiting for a reply that never comes
		var pendingCmd erpc.CallCmd
		if pending {
			var pr string
			pendingCmd = sess.AsyncCall("/client/never", "q", &pr, make(chan erpc.CallCmd, 1))
			vsched.Quiesce()
		}
		frames := validFrames(proto, hc)
		if detail {
			frames = append(validFrames(proto, "/no/such/route"), frames[:1]...)
		}
		var input []byte
		desc := ""
		oversize := false
		switch class {
		case "alphabet":
			al := c06Alphabets[proto]
			n := vsched.Choose(maxLen+1, "len")
			for i := 0; i < n; i++ {
				input = append(input, al[vsched.Choose(len(al), "sym")])
			}
		case "prefix":
			f := frames[vsched.Choose(len(frames), "frame")]
			k := vsched.Choose(len(f)+1, "cut")
			input = append([]byte{}, f[:k]...)
		case "subst":
			f := frames[vsched.Choose(len(frames), "frame")]
			off := vsched.Choose(len(f), "offset")
			vals := []byte{0x00, 0x01, 0x7f, 0x80, 0xff, f[off] ^ 1, f[off] ^ 0x80, 0xe2, 0xc3}
			input = append([]byte{}, f...)
			input[off] = vals[vsched.Choose(len(vals), "value")]
		case "length":
			// the size word of a size-prefixed frame set to boundary values, followed by a payload that must not be consumed
			sizes := []uint32{0, 1, 4, 5, limit - 1, limit, limit + 1, 1 << 20, 1 << 26, 1<<31 - 1, 1 << 31, 1<<32 - 1}
			sz := sizes[vsched.Choose(len(sizes), "size")]
			f := frames[0]
			input = append([]byte{}, f...)
			if proto == "http" {
				input = []byte(fmt.Sprintf("POST %s HTTP/1.1\r\nContent-Type: application/json\r\nContent-Length: %d\r\n\r\n", hc, sz))
			} else if proto == "thrift" {
				binary.BigEndian.PutUint32(input, sz)
			} else {
				binary.BigEndian.PutUint32(input, sz)
			}
			input = append(input, bytes.Repeat([]byte{'A'}, 64<<10)...)
			oversize = sz > limit
			desc = fmt.Sprintf(" size=%d", sz)
		}
		ctxt := fmt.Sprintf("proto=%s class=%s limit=%d%s input=%q", proto, class, limit, desc, trunc(input))
		var ms0, ms1 runtime.MemStats
		runtime.ReadMemStats(&ms0)
		raw.Write(input)
		vsched.Quiesce()
		consumed := len(input) - sc.Pending()
		raw.Close() // EOF: the input is exhausted
		vsched.Quiesce()
		runtime.ReadMemStats(&ms1)
		alloc := ms1.TotalAlloc - ms0.TotalAlloc
		slack := uint64(768 << 10)
		if alloc > uint64(limit)+slack+uint64(2*len(input)) {
			vsched.NoReplay() // library buffer pools make a repeated run allocate less
			vsched.Failf("handling one input allocated far more than the read limit | %d KiB, limit %d bytes, %s", alloc>>10, limit, ctxt)
		}
		if class == "length" && oversize && proto != "thrift" {
			if !sc.IsClosed() && sess.Health() {
				vsched.Failf("a frame announcing more than the read limit did not cause disconnection | %s", ctxt)
			}
			if consumed > 4096 { // allowance for the socket layer's buffered read-ahead (1 KiB buffer)
				vsched.Failf("%d bytes were consumed from the connection although the frame announced more than the read limit | %s", consumed, ctxt)
			}
		}
		if pendingCmd != nil {
			if !world.IsDone(pendingCmd) {
				vsched.Failf("a call of the session was still waiting after the session's input was exhausted (caller blocked for ever); %s | %s", vsched.BlockedDesc(), ctxt)
			}
			if pendingCmd.Status().OK() {
				vsched.Failf("a call that never got a reply completed with an OK status | %s", ctxt)
			}
		}
		// the session ended cleanly once its input ended
		if sess.Health() {
			vsched.Failf("session still healthy after its connection reached EOF | %s", ctxt)
		}
		if !closedNotify(sess) {
			vsched.Failf("session's close notification did not fire after EOF | %s", ctxt)
		}
		if _, ok := srv.GetSession(sess.ID()); ok && srv.CountSession() != 1 {
			vsched.Failf("ended session still indexed | %s", ctxt)
		}
		// every other session of the process keeps working
		var r string
		if st := ctl.Call(hc, "probe", &r).Status(); !st.OK() || r != "probe" {
			vsched.Failf("the control session stopped working: %s | %s", world.StatStr(st), ctxt)
		}
		cli.Close()
		srv.Close()
		vsched.Quiesce()
		if l := vsched.Live(); l != 0 {
			vsched.Failf("%d goroutines still blocked after the input was exhausted and everything was closed: %s | %s", l, vsched.BlockedDesc(), ctxt)
		}
		world.Counter("inputs")
		vsched.Logf("%s consumed=%d handled=%d", class, consumed, handled)
	}
}
