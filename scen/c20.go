package scen

import (
	"bytes"
	"context"
	"encoding/json"
	"fmt"
	"strings"

	erpc "github.com/henrylee2cn/erpc/v6"
	"github.com/henrylee2cn/erpc/v6/socket"
	"github.com/henrylee2cn/erpc/v6/utils"
	"github.com/henrylee2cn/goutil"

	"verif/shim/vnet"
	"verif/shim/vsched"
	"verif/world"
)

func init() { Sched["c20"] = c20 }

type ctxKey struct{}

const dirtyMark = "DIRTY"

// message setters of the first user, each with a recognisable marker
var c20MsgDirty = []struct {
	name string
	f    func(m socket.Message)
}{
	{"seq", func(m socket.Message) { m.SetSeq(7777) }},
	{"mtype", func(m socket.Message) { m.SetMtype(9) }},
	{"method", func(m socket.Message) { m.SetServiceMethod("/" + dirtyMark) }},
	{"status", func(m socket.Message) { m.SetStatus(erpc.NewStatus(555, dirtyMark, dirtyMark)) }},
	{"statusinit", func(m socket.Message) { m.Status(true).SetCode(556) }},
	{"meta", func(m socket.Message) { m.Meta().Add(dirtyMark, dirtyMark) }},
	{"metaparse", func(m socket.Message) { m.Meta().Parse("a=" + dirtyMark + "&b=" + dirtyMark) }},
	{"codec", func(m socket.Message) { m.SetBodyCodec('x') }},
	{"body", func(m socket.Message) { m.SetBody(dirtyMark) }},
	{"newbody", func(m socket.Message) { m.SetNewBody(func(socket.Header) interface{} { s := dirtyMark; return &s }) }},
	{"pipe", func(m socket.Message) { m.XferPipe().Append('g', 'm') }},
	{"pipe1", func(m socket.Message) { m.XferPipe().Append('g') }},
	{"look", func(m socket.Message) {
		// the first user reads the message back (logging, packing): derived views may get cached
		_ = m.XferPipe().IDs()
		_ = m.Meta().QueryString()
		_ = m.String()
	}},
	{"size", func(m socket.Message) { m.SetSize(4242) }},
	{"ctx", func(m socket.Message) {
		socket.WithContext(context.WithValue(context.Background(), ctxKey{}, dirtyMark))(m)
	}},
}

// second-user operations
var c20MsgSecond = []struct {
	name string
	f    func(m socket.Message)
}{
	{"none", func(m socket.Message) {}},
	{"seq", func(m socket.Message) { m.SetSeq(3) }},
	{"method", func(m socket.Message) { m.SetServiceMethod("/new") }},
	{"meta", func(m socket.Message) { m.Meta().Add("nk", "nv") }},
	{"body", func(m socket.Message) { m.SetBodyCodec('j'); m.SetBody([]byte(`"new"`)) }},
	{"pipe", func(m socket.Message) { m.XferPipe().Append('m') }},
	{"statusinit", func(m socket.Message) { m.Status(true) }},
	{"parsebare", func(m socket.Message) { m.Meta().Parse("debug&z=") }},
	{"recv", func(m socket.Message) {
		// the next user receives a frame into the message
		f := world.Frame{Seq: 4, Mtype: 1, Method: "/r", Status: "code=5&msg=x", Meta: "debug&tok&a=1", Codec: 'j', Body: []byte(`"b"`)}
		m.SetNewBody(func(socket.Header) interface{} { return new([]byte) })
		world.Proto("raw")(&memRW{r: bytes.NewReader(f.Bytes())}).Unpack(m)
	}},
}

func msgView(m socket.Message) string {
	var b strings.Builder
	fmt.Fprintf(&b, "seq=%d mtype=%d method=%q statOK=%v stat=%v meta=%q metalen=%d codec=%d body=%v pipe=%q pipelen=%d size=%d ctxval=%v",
		m.Seq(), m.Mtype(), m.ServiceMethod(), m.StatusOK(), m.Status().String(), m.Meta().QueryString(), m.Meta().Len(), m.BodyCodec(), m.Body(), m.XferPipe().IDs(), m.XferPipe().Len(), m.Size(), m.Context().Value(ctxKey{}))
	// what a receiver-side decode would allocate
	if err := m.UnmarshalBody([]byte(`"probe"`)); err != nil {
		fmt.Fprintf(&b, " unmarshalErr=%v", err)
	}
	fmt.Fprintf(&b, " bodyAfterUnmarshal=%v", m.Body())
	return b.String()
}

func packBytes(m socket.Message) string {
	rw := &memRW{}
	m.SetBody(nil)
	if err := world.Proto("raw")(rw).Pack(m); err != nil {
		return "packerr:" + err.Error()
	}
	return string(rw.w.Bytes())
}

func c20(p Params) func() {
	kind := p.Get("kind", "message")
	depth := p.Int("depth", 2)
	return func() {
		begin()
		switch kind {
		case "message":
			m := socket.GetMessage()
			hist := ""
			for i := 0; i < depth; i++ {
				k := vsched.Choose(len(c20MsgDirty)+1, "dirty")
				if k == len(c20MsgDirty) {
					break
				}
				c20MsgDirty[k].f(m)
				hist += c20MsgDirty[k].name + " "
			}
			socket.PutMessage(m)
			m2 := socket.GetMessage()
			if m2 != m {
				vsched.Failf("harness: the pool did not hand the recycled message back")
			}
			fresh := socket.NewMessage()
			s1 := vsched.Choose(len(c20MsgSecond), "second1")
			s2 := vsched.Choose(len(c20MsgSecond), "second2")
			for _, s := range []int{s1, s2} {
				c20MsgSecond[s].f(m2)
				c20MsgSecond[s].f(fresh)
			}
			ctxt := fmt.Sprintf("first user: %s; second user: %s %s", hist, c20MsgSecond[s1].name, c20MsgSecond[s2].name)
			if a, b := msgView(m2), msgView(fresh); a != b {
				vsched.Failf("recycled message differs from a fresh one | %s\n recycled: %s\n fresh:    %s", ctxt, a, b)
			}
			if a, b := packBytes(m2), packBytes(fresh); a != b {
				vsched.Failf("recycled message packs to different bytes than a fresh one | %s\n recycled: %q\n fresh:    %q", ctxt, a, b)
			}
			vsched.Logf("%s", ctxt)
		case "args":
			ops := []struct {
				n string
				f func(a *utils.Args)
			}{
				{"add", func(a *utils.Args) { a.Add(dirtyMark, dirtyMark) }},
				{"set", func(a *utils.Args) { a.Set("k", dirtyMark) }},
				{"parse", func(a *utils.Args) { a.Parse("x=" + dirtyMark + "&y=1") }},
				{"del", func(a *utils.Args) { a.Del("k") }},
				{"query", func(a *utils.Args) { a.QueryString() }},
				{"setuint", func(a *utils.Args) { a.SetUint("n", 77) }},
			}
			a := utils.AcquireArgs()
			hist := ""
			for i := 0; i < depth+1; i++ {
				k := vsched.Choose(len(ops)+1, "dirty")
				if k == len(ops) {
					break
				}
				ops[k].f(a)
				hist += ops[k].n + " "
			}
			utils.ReleaseArgs(a)
			a2 := utils.AcquireArgs()
			if a2 != a {
				vsched.Failf("harness: the pool did not hand the recycled Args back")
			}
			fresh := &utils.Args{}
			second := []func(x *utils.Args){func(x *utils.Args) {}, func(x *utils.Args) { x.Add("nk", "nv") }, func(x *utils.Args) { x.Set("k", "1") }, func(x *utils.Args) { x.Parse("p=q") },
				func(x *utils.Args) { x.Parse("k") }, func(x *utils.Args) { x.Parse("debug&y&k=") }, func(x *utils.Args) { x.Add("e", ""); x.Add("f", "") }, func(x *utils.Args) { x.ParseBytes([]byte("a&b&c")) }}
			s := vsched.Choose(len(second), "second")
			second[s](a2)
			second[s](fresh)
			view := func(x *utils.Args) string {
				var vis []string
				x.VisitAll(func(k, v []byte) { vis = append(vis, string(k)+"="+string(v)) })
				return fmt.Sprintf("len=%d q=%q visit=%v peekDirty=%q peekk=%q peekdebug=%q has=%v", x.Len(), x.QueryString(), vis, x.Peek(dirtyMark), x.Peek("k"), x.Peek("debug"), x.Has("x"))
			}
			if va, vb := view(a2), view(fresh); va != vb {
				vsched.Failf("recycled Args differ from fresh ones | first user: %s second: %d\n recycled: %s\n fresh:    %s", hist, s, va, vb)
			}
			vsched.Logf("%s|%d", hist, s)
		case "socket":
			c1, _ := vnet.Pipe("1.1.1.1:1", "2.2.2.2:2")
			s := socket.GetSocket(c1)
			ops := []struct {
				n string
				f func(s socket.Socket)
			}{
				{"setid", func(s socket.Socket) { s.SetID(dirtyMark) }},
				{"swap", func(s socket.Socket) { s.Swap().Store(dirtyMark, dirtyMark) }},
				{"newswap", func(s socket.Socket) { m := goutil.RwMap(); m.Store("x", dirtyMark); s.Swap(m) }},
				{"reset", func(s socket.Socket) { c, _ := vnet.Pipe("3.3.3.3:3", "4.4.4.4:4"); s.Reset(c, world.Proto("json")) }},
				{"write", func(s socket.Socket) { s.WriteMessage(socket.NewMessage(socket.WithServiceMethod("/" + dirtyMark))) }},
			}
			hist := ""
			for i := 0; i < depth; i++ {
				k := vsched.Choose(len(ops)+1, "dirty")
				if k == len(ops) {
					break
				}
				ops[k].f(s)
				hist += ops[k].n + " "
			}
			s.Close()
			c2, c2peer := vnet.Pipe("5.5.5.5:5", "6.6.6.6:6")
			s2 := socket.GetSocket(c2)
			if s2 != s {
				vsched.Failf("harness: the pool did not hand the recycled socket back")
			}
			c3, c3peer := vnet.Pipe("5.5.5.5:5", "6.6.6.6:6")
			fresh := socket.NewSocket(c3)
			view := func(x socket.Socket, peer *vnet.Conn) string {
				x.WriteMessage(socket.NewMessage(socket.WithServiceMethod("/n")))
				return fmt.Sprintf("id=%q swaplen=%d swapDirty=%v local=%v remote=%v wire=%q", x.ID(), x.SwapLen(), func() interface{} { v, _ := x.Swap().Load(dirtyMark); return v }(), x.LocalAddr(), x.RemoteAddr(), peer.Peer().Written)
			}
			if va, vb := view(s2, c2peer), view(fresh, c3peer); va != vb {
				vsched.Failf("recycled socket differs from a fresh one | first user: %s\n recycled: %s\n fresh:    %s", hist, va, vb)
			}
			vsched.Logf("%s", hist)
		case "ctx":
			c20ctx(depth)
		case "unknown":
			c20unknown(depth)
		}
	}
}

// c20ctx: two consecutive requests on a live session reuse the handler context;
// whatever the first handler did must be invisible to the second handler and absent from the second reply.
func c20ctx(depth int) {
	type dirt struct {
		n string
		f func(ctx erpc.CallCtx)
	}
	dirts := []dirt{
		{"swap", func(ctx erpc.CallCtx) { ctx.Swap().Store(dirtyMark, dirtyMark) }},
		{"replymeta", func(ctx erpc.CallCtx) { ctx.SetMeta(dirtyMark, dirtyMark) }},
		{"replyaddmeta", func(ctx erpc.CallCtx) { ctx.AddMeta("k", dirtyMark) }},
		{"replypipe", func(ctx erpc.CallCtx) { ctx.AddXferPipe('g') }},
		{"replycodec", func(ctx erpc.CallCtx) { ctx.SetBodyCodec('s') }},
		{"resetmethod", func(ctx erpc.CallCtx) { ctx.ResetServiceMethod("/" + dirtyMark) }},
		{"inputmeta", func(ctx erpc.CallCtx) { ctx.Input().Meta().Add(dirtyMark, dirtyMark) }},
		{"outputstatus", func(ctx erpc.CallCtx) { ctx.Output().SetStatus(erpc.NewStatus(777, dirtyMark, "")) }},
		{"outputsize", func(ctx erpc.CallCtx) { ctx.Output().SetSize(9999) }},
		{"inputpipe", func(ctx erpc.CallCtx) { ctx.Input().XferPipe().Append('m') }},
	}
	var chosen []int
	hist := ""
	for i := 0; i < depth; i++ {
		k := vsched.Choose(len(dirts)+1, "dirty")
		if k == len(dirts) {
			break
		}
		chosen = append(chosen, k)
		hist += dirts[k].n + " "
	}
	firstFails := vsched.Choose(3, "first_outcome") // 0 ok, 1 error status, 2 panic
	// before the first request the server may itself have called out with a caller-supplied context
	// (values, later cancelled); the context that handled that reply is recycled for later requests
	outcall := vsched.Choose(2, "outcall") == 1
	calls := 0
	var secondView string
	srv := world.NewPeer("json")
	h := srv.RouteCallFunc(func(ctx erpc.CallCtx, arg *string) (*string, *erpc.Status) {
		calls++
		if calls == 1 {
			for _, k := range chosen {
				dirts[k].f(ctx)
			}
			switch firstFails {
			case 1:
				return nil, erpc.NewStatus(1001, dirtyMark, dirtyMark)
			case 2:
				panic(dirtyMark)
			}
			r := "first"
			return &r, nil
		}
		_, hasDirty := ctx.Swap().Load(dirtyMark)
		var metas []string
		ctx.VisitMeta(func(k, v []byte) { metas = append(metas, string(k)+"="+string(v)) })
		secondView = fmt.Sprintf("swaplen=%d swapdirty=%v method=%q inmeta=%v incodec=%d inpipe=%q outmeta=%q outpipe=%q outcodec=%d outstat=%v outsize=%d seq=%d ctxval=%v ctxerr=%v",
			ctx.Swap().Len(), hasDirty, ctx.ServiceMethod(), metas, ctx.GetBodyCodec(), ctx.Input().XferPipe().IDs(), ctx.Output().Meta().QueryString(), ctx.Output().XferPipe().IDs(), ctx.Output().BodyCodec(), ctx.Output().Status().String(), ctx.Output().Size(), ctx.Seq(), ctx.Context().Value(ctxKey{}), ctx.Context().Err())
		r := "second"
		return &r, nil
	})
	// the remote end is a scripted raw peer so that the wire bytes can be compared exactly
	raw, sc := vnet.Pipe(vnet.NewAddr(), vnet.NewAddr())
	ssess, st := srv.ServeConn(sc)
	if !st.OK() {
		vsched.Failf("ServeConn: %v", st)
	}
	if outcall {
		cctx, cancel := context.WithCancel(context.WithValue(context.Background(), ctxKey{}, dirtyMark))
		var rr string
		cmd := ssess.AsyncCall("/client/x", "q", &rr, make(chan erpc.CallCmd, 1), erpc.WithContext(cctx))
		vsched.Quiesce()
		f, _, err := world.ParseFrame(raw.Peer().Written)
		if err != nil || f.Mtype != erpc.TypeCall {
			vsched.Failf("harness: the outgoing call of the server was not written: %v", err)
		}
		raw.Write(world.Frame{Seq: f.Seq, Mtype: erpc.TypeReply, Status: "code=0", Codec: 'j', Body: []byte(`"r"`)}.Bytes())
		vsched.Quiesce()
		cancel()
		if !world.IsDone(cmd) || !cmd.Status().OK() || rr != "r" {
			vsched.Failf("harness: the outgoing call of the server did not complete: %v %q", cmd.Status(), rr)
		}
		hist += "outcall "
	}
	req := func(seq int32) []byte {
		f := world.Frame{Seq: seq, Mtype: erpc.TypeCall, Method: h, Codec: 'j', Body: []byte(`"a"`)}
		if seq == 1 {
			f.Meta = "token=" + dirtyMark + "&second=" + dirtyMark + "&third=" + dirtyMark
			f.Body = []byte(`"` + dirtyMark + dirtyMark + `"`)
		} else {
			f.Meta = "debug&flag"
		}
		return f.Bytes()
	}
	raw.Write(req(1))
	vsched.Quiesce()
	// the reader takes the context for the next message while the first handler still runs, so the
	// context dirtied by request 1 is handed out again two requests later: check requests 2 and 3
	for seq := int32(2); seq <= 3; seq++ {
		n1 := len(raw.Peer().Written)
		secondView = ""
		raw.Write(req(seq))
		vsched.Quiesce()
		second := raw.Peer().Written[n1:]
		if calls != int(seq) {
			vsched.Failf("handler ran %d times for %d requests | first handler: %s outcome %d", calls, seq, hist, firstFails)
		}
		// reference: the same request on a server whose contexts were never used
		wantView := fmt.Sprintf("swaplen=0 swapdirty=false method=%q inmeta=[debug= flag=] incodec=106 inpipe=\"\" outmeta=\"\" outpipe=\"\" outcodec=0 outstat=<nil> outsize=0 seq=%d ctxval=<nil> ctxerr=<nil>", h, seq)
		if secondView != wantView {
			vsched.Failf("a later handler sees state of the first one through the recycled context | request %d, first handler: %s outcome %d\n got:  %s\n want: %s", seq, hist, firstFails, secondView, wantView)
		}
		wantReply := world.Frame{Seq: seq, Mtype: erpc.TypeReply, Status: "code=0", Codec: 'j', Body: []byte(`"second"`)}.Bytes()
		if !bytes.Equal(second, wantReply) {
			f, _, _ := world.ParseFrame(second)
			vsched.Failf("the reply to a later request differs from the reply of a fresh context | request %d, first handler: %s outcome %d\n got:  %s\n want: %q", seq, hist, firstFails, f.String(), wantReply)
		}
		if bytes.Contains(second, []byte(dirtyMark)) {
			vsched.Failf("marker of the first request on the wire of a later reply")
		}
	}
	vsched.Logf("%s|%d", hist, firstFails)
}

// c20unknown: every sequence of `depth` messages for unregistered routes -- CALL or PUSH, on one of two sessions of
// the same peer, with an empty, a short or a long body -- handled by the peer's unknown-call/unknown-push handlers
// (the proxy's entry points). Each handler must see exactly the body bytes of its own message (a recycled context
// may not show the bytes of an earlier message of any session), again after a yield, and each CALL is answered
// with the echo of its own body.
func c20unknown(depth int) {
	srv := world.NewPeer("json")
	type seen struct {
		method string
		body   string
	}
	var log []seen
	srv.SetUnknownCall(func(ctx erpc.UnknownCallCtx) (interface{}, *erpc.Status) {
		b := string(ctx.InputBodyBytes())
		vsched.Yield()
		if again := string(ctx.InputBodyBytes()); again != b {
			vsched.Failf("unknown-call handler: the input body changed while the handler ran: %q then %q", b, again)
		}
		log = append(log, seen{ctx.ServiceMethod(), b})
		r := "echo:" + b
		return &r, nil
	})
	srv.SetUnknownPush(func(ctx erpc.UnknownPushCtx) *erpc.Status {
		b := string(ctx.InputBodyBytes())
		vsched.Yield()
		if again := string(ctx.InputBodyBytes()); again != b {
			vsched.Failf("unknown-push handler: the input body changed while the handler ran: %q then %q", b, again)
		}
		log = append(log, seen{ctx.ServiceMethod(), b})
		return nil
	})
	var raws [2]*vnet.Conn
	for i := range raws {
		r, sc := vnet.Pipe(vnet.NewAddr(), vnet.NewAddr())
		if _, st := srv.ServeConn(sc); !st.OK() {
			vsched.Failf("ServeConn: %v", st)
		}
		raws[i] = r
	}
	bodies := []string{"", `"` + dirtyMark + `"`, `"` + strings.Repeat(dirtyMark, 6) + `"`}
	hist := ""
	for i := 0; i < depth; i++ {
		k := vsched.Choose(12, "msg")
		si, push, bi := k%2, (k/2)%2 == 1, k/4
		method := fmt.Sprintf("/nowhere/m%d", i)
		f := world.Frame{Seq: int32(i + 1), Mtype: erpc.TypeCall, Method: method, Codec: 'j', Body: []byte(bodies[bi])}
		if push {
			f.Mtype = erpc.TypePush
		}
		hist += fmt.Sprintf("s%d:%s:%dB ", si, map[bool]string{false: "call", true: "push"}[push], len(bodies[bi]))
		n0, l0 := len(raws[si].Peer().Written), len(log)
		raws[si].Write(f.Bytes())
		vsched.Quiesce()
		if len(log) != l0+1 {
			vsched.Failf("unknown handler ran %d times for one message | %s", len(log)-l0, hist)
		}
		if got := log[l0]; got.method != method || got.body != bodies[bi] {
			vsched.Failf("the unknown handler saw another message's body: method %q body %q, sent method %q body %q | %s", got.method, got.body, method, bodies[bi], hist)
		}
		out := raws[si].Peer().Written[n0:]
		if push {
			if len(out) != 0 {
				vsched.Failf("a PUSH was answered | %s", hist)
			}
			continue
		}
		rf, _, err := world.ParseFrame(out)
		if err != nil {
			vsched.Failf("no well-formed reply to an unknown-route CALL: %v | %s", err, hist)
		}
		wantBody, _ := json.Marshal("echo:" + bodies[bi])
		if rf.Seq != f.Seq || rf.Mtype != erpc.TypeReply || !bytes.Equal(rf.Body, wantBody) {
			vsched.Failf("reply of an unknown-route CALL is not the echo of its own body: got %s, want body %q | %s", rf.String(), wantBody, hist)
		}
	}
	vsched.Logf("%s", hist)
}
