package scen

import (
	"fmt"
	"net/textproto"
	"sort"
	"unicode/utf8"

	"git.apache.org/thrift.git/lib/go/thrift"

	"verif/world"
)

// Protocols with a narrower documented field set: the HTTP-style protocol and the thrift struct protocol.
// Each has an adapter (maps an alphabet message into the protocol's field set where that is a pure renaming)
// and a normaliser (the expectation for a message, or false when the message is outside the supported set).

func extraSpecs() []protoSpec {
	return []protoSpec{
		{name: "http", pf: world.Proto("http"), adapt: httpAdapt, norm: httpNorm},
		{name: "thriftstruct", pf: world.Proto("thriftstruct"), adapt: tsAdapt, norm: tsNorm, structBody: true},
	}
}

var httpCodecs = map[byte]bool{'p': true, 'j': true, 'f': true, 's': true, 'x': true}
var httpOwnHeaders = map[string]bool{"User-Agent": true, "Accept-Encoding": true, "Content-Encoding": true, "Host": true,
	"Content-Type": true, "Content-Length": true, "X-Content-Encoding": true, "X-Seq": true, "X-Mtype": true}

func httpPathOK(s string) bool {
	if len(s) == 0 || s[0] != '/' {
		return false
	}
	for i := 0; i < len(s); i++ {
		c := s[i]
		if !(c >= 'a' && c <= 'z' || c >= 'A' && c <= 'Z' || c >= '0' && c <= '9' || c == '/' || c == '_' || c == '-' || c == '.') {
			return false
		}
	}
	return true
}

// httpNorm: CALL and REPLY only; the service method is a URL path and travels with requests only; the body codec
// is one of the mapped content types; the only filter is gzip; metadata are HTTP headers (canonical keys, one
// value per key, printable values, transmitted in sorted order); a non-OK reply carries its status instead of a body.
func httpNorm(e mmsg) (mmsg, bool) {
	if e.Mtype != 1 && e.Mtype != 2 {
		return e, false
	}
	if !httpCodecs[e.Codec] {
		return e, false
	}
	if len(e.Pipe) > 1 || (len(e.Pipe) == 1 && e.Pipe[0] != 'g') {
		return e, false
	}
	if e.Mtype == 1 {
		if !httpPathOK(e.Method) || e.Stat[0] != "" {
			return e, false
		}
	} else {
		e.Method = ""
	}
	seen := map[string]bool{}
	for _, kv := range e.Meta {
		k, v := kv[0], kv[1]
		if k == "" || textproto.CanonicalMIMEHeaderKey(k) != k || httpOwnHeaders[k] || seen[k] {
			return e, false
		}
		for i := 0; i < len(k); i++ {
			if c := k[i]; !(c >= 'a' && c <= 'z' || c >= 'A' && c <= 'Z' || c >= '0' && c <= '9' || c == '-') {
				return e, false
			}
		}
		seen[k] = true
		for i := 0; i < len(v); i++ {
			if v[i] < 0x21 || v[i] > 0x7e {
				return e, false
			}
		}
	}
	if len(e.Meta) > 0 {
		e.Meta = append([][2]string{}, e.Meta...)
		sort.Slice(e.Meta, func(i, j int) bool { return e.Meta[i][0] < e.Meta[j][0] })
	}
	if e.Stat[0] != "" {
		e.Body = []byte{}
		e.Codec = 'j'
	}
	return e, true
}

// httpStrip removes the protocol's own headers from the received metadata.
func httpStrip(o mmsg) mmsg {
	var meta [][2]string
	for _, kv := range o.Meta {
		if !httpOwnHeaders[kv[0]] {
			meta = append(meta, kv)
		}
	}
	o.Meta = meta
	return o
}

// tsBody is a thrift struct with one binary field (the body model of the struct protocol).
type tsBody struct{ Data []byte }

func (p *tsBody) Read(iprot thrift.TProtocol) error {
	if _, err := iprot.ReadStructBegin(); err != nil {
		return fmt.Errorf("%T read error: %s", p, err)
	}
	for {
		_, ft, id, err := iprot.ReadFieldBegin()
		if err != nil {
			return fmt.Errorf("%T field %d read error: %s", p, id, err)
		}
		if ft == thrift.STOP {
			break
		}
		if id == 1 && ft == thrift.STRING {
			v, err := iprot.ReadBinary()
			if err != nil {
				return err
			}
			p.Data = v
		} else if err := iprot.Skip(ft); err != nil {
			return err
		}
		if err := iprot.ReadFieldEnd(); err != nil {
			return err
		}
	}
	return iprot.ReadStructEnd()
}

func (p *tsBody) Write(oprot thrift.TProtocol) error {
	if err := oprot.WriteStructBegin("tsBody"); err != nil {
		return err
	}
	if err := oprot.WriteFieldBegin("data", thrift.STRING, 1); err != nil {
		return err
	}
	if err := oprot.WriteBinary(p.Data); err != nil {
		return err
	}
	if err := oprot.WriteFieldEnd(); err != nil {
		return err
	}
	if err := oprot.WriteFieldStop(); err != nil {
		return err
	}
	return oprot.WriteStructEnd()
}

// tsAdapt: the struct protocol carries neither a body codec choice nor filters: rename them away.
func tsAdapt(m mmsg) mmsg {
	if m.Codec != 0 {
		m.Codec = 't'
	}
	m.Pipe = nil
	return m
}

func tsNorm(e mmsg) (mmsg, bool) {
	if e.Mtype < 1 || e.Mtype > 3 {
		return e, false
	}
	if (e.Codec != 0 && e.Codec != 't') || len(e.Pipe) > 0 {
		return e, false
	}
	e.Codec = 't'
	return e, true
}

// httpStatusClass names the two ways in which the JSON status document of the HTTP-style protocol (produced and
// parsed by the vendored status package) is known to differ from the status sent; "" for any other difference.
func httpStatusClass(want, got mmsg) string {
	if want.Stat == got.Stat || want.Stat[0] != got.Stat[0] {
		return ""
	}
	if want.Stat[1] == got.Stat[1] && want.Stat[2] == "" && got.Stat[2] == got.Stat[1] {
		return "http: a status with an explicit empty cause is received with the message as its cause"
	}
	if !utf8.ValidString(want.Stat[1]) || !utf8.ValidString(want.Stat[2]) {
		return "http: status text that is not valid UTF-8 is altered (JSON status document)"
	}
	return ""
}

// httpAdapt: a message without a body codec is sent with the protocol's default content type mapping (json here).
func httpAdapt(m mmsg) mmsg {
	if m.Codec == 0 {
		m.Codec = 'j'
	}
	return m
}
