// Package scen holds the closed scenarios and enumerations that the checks explore.
package scen

import (
	"fmt"
	"sort"
	"strconv"
	"strings"
)

// Params are the string parameters of a job.
type Params map[string]string

func (p Params) Get(k, def string) string {
	if v, ok := p[k]; ok {
		return v
	}
	return def
}
func (p Params) Int(k string, def int) int {
	if v, ok := p[k]; ok {
		n, err := strconv.Atoi(v)
		if err != nil {
			panic(fmt.Sprintf("param %s=%q is not an int", k, v))
		}
		return n
	}
	return def
}
func (p Params) String() string {
	var ks []string
	for k := range p {
		ks = append(ks, k)
	}
	sort.Strings(ks)
	var b strings.Builder
	for i, k := range ks {
		if i > 0 {
			b.WriteByte(',')
		}
		b.WriteString(k + "=" + p[k])
	}
	return b.String()
}

// ParseParams parses "k=v,k=v".
func ParseParams(s string) Params {
	p := Params{}
	for _, kv := range strings.Split(s, ",") {
		if kv == "" {
			continue
		}
		i := strings.IndexByte(kv, '=')
		if i < 0 {
			p[kv] = "1"
		} else {
			p[kv[:i]] = kv[i+1:]
		}
	}
	return p
}

// Sched scenarios: the factory returns the body run as thread 0 of every execution.
var Sched = map[string]func(p Params) func(){}

// EnumCtx is handed to bounded-exhaustive enumerations.
type EnumCtx struct {
	P       Params
	Shard   int
	NShards int
	idx     int64

	Evaluations int64
	Nontrivial  map[string]bool
	Samples     []string
	Violations  []EnumViolation
	Counters    map[string]int64
	Incomplete  string
}

// EnumViolation is one failing case of an enumeration.
type EnumViolation struct {
	Key    string `json:"key"`
	Case   string `json:"case"`
	Detail string `json:"detail"`
}

// Mine tells whether the next case belongs to this shard (round-robin).
func (c *EnumCtx) Mine() bool {
	i := c.idx
	c.idx++
	return c.NShards <= 1 || int(i%int64(c.NShards)) == c.Shard
}

// Case records one evaluated case; class is the distinctness class.
func (c *EnumCtx) Case(class string, sample string) {
	c.Evaluations++
	if c.Nontrivial == nil {
		c.Nontrivial = map[string]bool{}
	}
	if class != "" && len(c.Nontrivial) < 500000 {
		c.Nontrivial[class] = true
	}
	if len(c.Samples) < 5 && c.Evaluations%97 == 1 {
		c.Samples = append(c.Samples, sample)
	}
}

// Count bumps a named counter.
func (c *EnumCtx) Count(name string) {
	if c.Counters == nil {
		c.Counters = map[string]int64{}
	}
	c.Counters[name]++
}

// Fail records a violation (deduplicated by key).
func (c *EnumCtx) Fail(key, kase, detail string) {
	for _, v := range c.Violations {
		if v.Key == key {
			return
		}
	}
	if len(c.Violations) < 50 {
		c.Violations = append(c.Violations, EnumViolation{Key: key, Case: kase, Detail: detail})
	}
}

// Enum enumerations.
var Enum = map[string]func(c *EnumCtx){}
