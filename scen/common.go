package scen

import (
	"fmt"
	"sort"
	"strings"

	erpc "github.com/henrylee2cn/erpc/v6"

	"verif/shim/vsched"
	"verif/world"
)

// Rec is a plugin that implements every stage, logs (plugin, stage, seq) and returns scripted verdicts.
type Rec struct {
	name  string
	Trace *[]string
	// Veto maps stage name -> status to return (nil = OK)
	Veto    map[string]*erpc.Status
	Count   map[string]int
	Only    map[string]bool // if non-nil, only these stages log/act (models a plugin implementing a subset)
	OnStage func(stage string)
}

var recHookObj = new(int)

// NewRec creates a recording plugin.
func NewRec(name string, trace *[]string) *Rec {
	return &Rec{name: name, Trace: trace, Veto: map[string]*erpc.Status{}, Count: map[string]int{}}
}

func (r *Rec) Name() string { return r.name }

func (r *Rec) hit(stage string, seq int32) *erpc.Status {
	if r.Only != nil && !r.Only[stage] {
		return nil
	}
	// a hook is user code: it may be descheduled like any other, and the order of hook events of different
	// goroutines is what the trace oracles compare, so each hook is a scheduling point on one common object
	vsched.Point(vsched.KOther, recHookObj, nil)
	r.Count[stage]++
	if r.Trace != nil {
		*r.Trace = append(*r.Trace, fmt.Sprintf("%s.%s#%d", r.name, stage, seq))
	}
	if r.OnStage != nil {
		r.OnStage(stage)
	}
	return r.Veto[stage]
}

func (r *Rec) PostDial(s erpc.PreSession, isRedial bool) *erpc.Status {
	if isRedial {
		return r.hit("postdial_redial", 0)
	}
	return r.hit("postdial", 0)
}
func (r *Rec) PostAccept(s erpc.PreSession) *erpc.Status { return r.hit("postaccept", 0) }
func (r *Rec) PreWriteCall(c erpc.WriteCtx) *erpc.Status {
	return r.hit("prewritecall", c.Output().Seq())
}
func (r *Rec) PostWriteCall(c erpc.WriteCtx) *erpc.Status {
	return r.hit("postwritecall", c.Output().Seq())
}
func (r *Rec) PreWriteReply(c erpc.WriteCtx) *erpc.Status {
	return r.hit("prewritereply", c.Output().Seq())
}
func (r *Rec) PostWriteReply(c erpc.WriteCtx) *erpc.Status {
	return r.hit("postwritereply", c.Output().Seq())
}
func (r *Rec) PreWritePush(c erpc.WriteCtx) *erpc.Status {
	return r.hit("prewritepush", c.Output().Seq())
}
func (r *Rec) PostWritePush(c erpc.WriteCtx) *erpc.Status {
	return r.hit("postwritepush", c.Output().Seq())
}
func (r *Rec) PreReadHeader(c erpc.PreCtx) error {
	if st := r.hit("prereadheader", 0); st != nil {
		return st.Cause()
	}
	return nil
}
func (r *Rec) PostReadCallHeader(c erpc.ReadCtx) *erpc.Status {
	return r.hit("postreadcallheader", c.Seq())
}
func (r *Rec) PreReadCallBody(c erpc.ReadCtx) *erpc.Status { return r.hit("prereadcallbody", c.Seq()) }
func (r *Rec) PostReadCallBody(c erpc.ReadCtx) *erpc.Status {
	return r.hit("postreadcallbody", c.Seq())
}
func (r *Rec) PostReadPushHeader(c erpc.ReadCtx) *erpc.Status {
	return r.hit("postreadpushheader", c.Seq())
}
func (r *Rec) PreReadPushBody(c erpc.ReadCtx) *erpc.Status { return r.hit("prereadpushbody", c.Seq()) }
func (r *Rec) PostReadPushBody(c erpc.ReadCtx) *erpc.Status {
	return r.hit("postreadpushbody", c.Seq())
}
func (r *Rec) PostReadReplyHeader(c erpc.ReadCtx) *erpc.Status {
	return r.hit("postreadreplyheader", c.Seq())
}
func (r *Rec) PreReadReplyBody(c erpc.ReadCtx) *erpc.Status {
	return r.hit("prereadreplybody", c.Seq())
}
func (r *Rec) PostReadReplyBody(c erpc.ReadCtx) *erpc.Status {
	return r.hit("postreadreplybody", c.Seq())
}
func (r *Rec) PostDisconnect(s erpc.BaseSession) *erpc.Status { return r.hit("postdisconnect", 0) }

// DiscCounter counts PostDisconnect per session (by pointer identity of the BaseSession).
type DiscCounter struct {
	N map[erpc.BaseSession]int
}

func (d *DiscCounter) Name() string { return "disccounter" }
func (d *DiscCounter) PostDisconnect(s erpc.BaseSession) *erpc.Status {
	if d.N == nil {
		d.N = map[erpc.BaseSession]int{}
	}
	d.N[s]++
	return nil
}

// sessionsOf lists the peer's index via RangeSession, sorted by id.
func sessionsOf(p erpc.Peer) []string {
	var ids []string
	p.RangeSession(func(s erpc.Session) bool {
		ids = append(ids, s.ID())
		return true
	})
	sort.Strings(ids)
	return ids
}

func joinAll(ths []*vsched.Thread) {
	for _, t := range ths {
		vsched.Join(t)
	}
}

func closedNotify(s erpc.Session) bool {
	select {
	case <-s.CloseNotify():
		return true
	default:
		return false
	}
}

func idsStr(ids []string) string { return "[" + strings.Join(ids, " ") + "]" }

var _ = world.StatStr
