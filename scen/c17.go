package scen

import (
	"bytes"
	"fmt"
	"strings"

	erpc "github.com/henrylee2cn/erpc/v6"
	"github.com/henrylee2cn/erpc/v6/plugin/secure"

	"verif/shim/vsched"
	"verif/world"
)

func init() { Sched["c17"] = c17 }

func entropy(n int, seed uint32) string {
	const al = "ABCDEFGHIJKLMNOPQRSTUVWXYZabcdefghijklmnopqrstuvwxyz0123456789"
	b := make([]byte, n)
	x := seed
	for i := range b {
		x = x*1664525 + 1013904223
		b[i] = al[(x>>16)%uint32(len(al))]
	}
	return string(b)
}

// c17: secure plugin end to end.
func c17(p Params) func() {
	codecName := p.Get("codec", "json")
	proto := p.Get("proto", "raw")
	return func() {
		begin()
		kinds := []string{"call", "push"}
		kind := kinds[vsched.Choose(2, "kind")]
		secs := []string{"", "true", "false"}
		sec := secs[vsched.Choose(3, "secure")]
		accs := []string{"", "true", "false"}
		acc := accs[vsched.Choose(3, "accept")]
		keys := [][2]string{
			{"0123456789abcdef", "0123456789abcdef"},
			{"0123456789abcdef01234567", "0123456789abcdef01234567"},
			{"0123456789abcdef0123456789abcdef", "0123456789abcdef0123456789abcdef"},
			{"0123456789abcdef", "fedcba9876543210"},
		}
		ki := vsched.Choose(len(keys), "keys")
		lens := []int{0, 1, 15, 16, 17, 100}
		n := lens[vsched.Choose(len(lens), "len")]
		// a handler may report success either as a nil status or as an explicit status with the OK code
		explicitOK := vsched.Choose(2, "okstatus") == 1
		okStatus := func() *erpc.Status {
			if explicitOK {
				return erpc.NewStatus(erpc.CodeOK, "", nil)
			}
			return nil
		}
		sameKey := keys[ki][0] == keys[ki][1]
		arg := entropy(n, 7)
		result := entropy(n, 99)
		ctxt := fmt.Sprintf("kind=%s secure=%q accept=%q keys=%d len=%d codec=%s proto=%s explicitOK=%v", kind, sec, acc, ki, n, codecName, proto, explicitOK)

		run := func(withPlugin bool) (handlerArgs []string, st *erpc.Status, res string, c2s, s2c []byte) {
			var sp, cp []erpc.Plugin
			if withPlugin {
				sp = append(sp, secure.NewPlugin(9001, keys[ki][1]))
				cp = append(cp, secure.NewPlugin(9002, keys[ki][0]))
			}
			srv := world.NewPeer(codecName, sp...)
			hc := srv.RouteCallFunc(func(ctx erpc.CallCtx, a *string) (*string, *erpc.Status) {
				handlerArgs = append(handlerArgs, *a)
				r := result
				return &r, okStatus()
			})
			hp := srv.RoutePushFunc(func(ctx erpc.PushCtx, a *string) *erpc.Status {
				handlerArgs = append(handlerArgs, *a)
				return okStatus()
			})
			cli := world.NewPeer(codecName, cp...)
			cs, _, link := world.Connect(cli, srv, world.Proto(proto))
			var settings []erpc.MessageSetting
			if sec != "" {
				settings = append(settings, erpc.WithSetMeta(secure.SECURE_META_KEY, sec))
			}
			if acc != "" {
				settings = append(settings, erpc.WithSetMeta(secure.ACCEPT_SECURE_META_KEY, acc))
			}
			a := arg
			if kind == "call" {
				st = cs.Call(hc, &a, &res, settings...).Status()
			} else {
				st = cs.Push(hp, &a, settings...)
			}
			vsched.Quiesce()
			return handlerArgs, st, res, append([]byte{}, link.A.Written...), append([]byte{}, link.B.Written...)
		}
		hargs, st, res, c2s, s2c := run(true)
		reqEnc := sec == "true"
		repEnc := kind == "call" && ((reqEnc && acc != "false") || (!reqEnc && acc == "true"))
		if codecName != "json" {
			// plain strings cannot be carried by this codec: covered by the envelope only
		}
		long := n >= 15
		if long {
			if reqEnc && bytes.Contains(c2s, []byte(arg)) {
				vsched.Failf("the argument of a message marked secure appears in clear on the wire | %s", ctxt)
			}
			if !reqEnc && !bytes.Contains(c2s, []byte(arg)) {
				vsched.Failf("an unmarked message does not carry its argument in clear (not passed unchanged) | %s", ctxt)
			}
		}
		reqOK := !reqEnc || sameKey
		if reqOK {
			if len(hargs) != 1 || hargs[0] != arg {
				vsched.Failf("the handler received %q, the sender supplied %q | %s", hargs, arg, ctxt)
			}
		} else {
			if len(hargs) != 0 {
				vsched.Failf("the handler was invoked although the receiving side has a different key | %s", ctxt)
			}
			if kind == "call" && st.OK() {
				vsched.Failf("OK status reported although the receiving side could not decrypt the request | %s", ctxt)
			}
		}
		if kind == "call" && reqOK {
			if long {
				if repEnc && bytes.Contains(s2c, []byte(result)) {
					vsched.Failf("the result of a reply that must be encrypted appears in clear on the wire | %s", ctxt)
				}
				if !repEnc && !bytes.Contains(s2c, []byte(result)) {
					vsched.Failf("a reply that need not be encrypted does not carry the result in clear | %s", ctxt)
				}
			}
			if !repEnc || sameKey {
				if !st.OK() || res != result {
					vsched.Failf("caller got %s result %q, want OK %q | %s", world.StatStr(st), res, result, ctxt)
				}
			} else {
				if st.OK() {
					vsched.Failf("caller reports OK although it cannot decrypt the reply (different key) | %s", ctxt)
				}
				if n > 0 && res == result {
					vsched.Failf("result delivered although the reply could not be decrypted | %s", ctxt)
				}
			}
		}
		if !reqEnc && !repEnc && acc == "" && sec == "" {
			// unmarked traffic is byte-identical to a run without the plugin
			_, _, _, c2sRef, s2cRef := run(false)
			if !bytes.Equal(c2s, c2sRef) || !bytes.Equal(s2c, s2cRef) {
				vsched.Failf("unmarked traffic differs from traffic without the plugin | %s\n with:    %q / %q\n without: %q / %q", ctxt, c2s, s2c, c2sRef, s2cRef)
			}
		}
		vsched.Logf("%s", ctxt)
	}
}

func init() { Sched["c17_seq"] = c17Seq }

// c17Seq: every sequence of marked and unmarked calls and pushes on ONE session (handler contexts, messages and
// swap maps are recycled between them). Each message is judged on its own traffic: marked ones are not readable
// on the wire and are delivered intact, unmarked ones pass unchanged (readable on the wire, reply not marked).
func c17Seq(p Params) func() {
	depth := p.Int("depth", 3)
	proto := p.Get("proto", "raw")
	return func() {
		begin()
		const key = "0123456789abcdef"
		var got []string
		srv := world.NewPeer("json", secure.NewPlugin(9001, key))
		hc := srv.RouteCallFunc(func(ctx erpc.CallCtx, a *string) (*string, *erpc.Status) {
			got = append(got, *a)
			r := "R" + *a
			return &r, nil
		})
		hp := srv.RoutePushFunc(func(ctx erpc.PushCtx, a *string) *erpc.Status {
			got = append(got, *a)
			return nil
		})
		cli := world.NewPeer("json", secure.NewPlugin(9002, key))
		cs, _, link := world.Connect(cli, srv, world.Proto(proto))
		// *_meta: the marker is followed by further metadata; *_false_meta: the marker is present with the value "false"
		kinds := []string{"call", "call_secure", "call_accept", "push", "push_secure", "call_secure_meta", "push_secure_meta", "call_false_meta", "push_false_meta"}
		hist := ""
		for i := 0; i < depth; i++ {
			kind := kinds[vsched.Choose(len(kinds), "op")]
			hist += kind + " "
			arg := entropy(20, uint32(100+i))
			n1, n2, g := len(link.A.Written), len(link.B.Written), len(got)
			var settings []erpc.MessageSetting
			switch kind {
			case "call_secure", "push_secure":
				settings = append(settings, secure.WithSecureMeta())
			case "call_accept":
				settings = append(settings, secure.WithAcceptSecureMeta(true))
			case "call_secure_meta", "push_secure_meta":
				settings = append(settings, secure.WithSecureMeta(), erpc.WithAddMeta("X-Request-Id", "abcdef"))
			case "call_false_meta", "push_false_meta":
				settings = append(settings, erpc.WithSetMeta(secure.SECURE_META_KEY, "false"), erpc.WithAddMeta("X-Request-Id", "abcdef"))
			}
			reqEnc := strings.Contains(kind, "_secure")
			a := arg
			if strings.HasPrefix(kind, "call") {
				var res string
				cmd := cs.Call(hc, &a, &res, settings...)
				vsched.Quiesce()
				if st := cmd.Status(); !st.OK() || res != "R"+arg {
					vsched.Failf("%s #%d: caller got %s %q, want OK %q | %s", kind, i, world.StatStr(st), res, "R"+arg, hist)
				}
				s2c := link.B.Written[n2:]
				repEnc := kind == "call_secure" || kind == "call_accept" || kind == "call_secure_meta"
				if readable := bytes.Contains(s2c, []byte("R"+arg)); repEnc == readable {
					vsched.Failf("%s #%d: result readable on the wire = %v, reply must be encrypted = %v | %s", kind, i, readable, repEnc, hist)
				}
				if m := cmd.InputMeta(); kind == "call" && m != nil && len(m.Peek(secure.SECURE_META_KEY)) > 0 {
					vsched.Failf("%s #%d: the reply to an unmarked call is marked %s=%s | %s", kind, i, secure.SECURE_META_KEY, m.Peek(secure.SECURE_META_KEY), hist)
				}
			} else {
				if st := cs.Push(hp, &a, settings...); !st.OK() {
					vsched.Failf("%s #%d: push failed: %s | %s", kind, i, world.StatStr(st), hist)
				}
				vsched.Quiesce()
			}
			c2s := link.A.Written[n1:]
			if readable := bytes.Contains(c2s, []byte(arg)); reqEnc == readable {
				vsched.Failf("%s #%d: argument readable on the wire = %v, request must be encrypted = %v | %s", kind, i, readable, reqEnc, hist)
			}
			if len(got) != g+1 || got[g] != arg {
				vsched.Failf("%s #%d: the handler received %q, the sender supplied %q | %s", kind, i, got[g:], arg, hist)
			}
		}
		vsched.Logf("%s", hist)
	}
}
