#!/bin/bash
# usage: shardrun.sh <repo-dir> <scenario> <params> <bound> <nshards> <budget-s>  -- sharded run of one scenario against a tree
export GOFLAGS=-mod=mod GOPROXY=off GOSUMDB=off GOTOOLCHAIN=local
cd "$(dirname "$0")"
d=.work/shardrun.$$; rm -rf $d; mkdir -p $d
./bin/vinstr -repo "$1" -keyroot /repo -out $d/instr -overlay-src overlay >/dev/null || exit 2
go build -overlay $d/instr/overlay.json -o $d/worker ./worker || exit 2
n=$5
for i in $(seq 0 $((n-1))); do
  ( $d/worker -mode sched -name "$2" -params "$3" -bound "$4" -budget "$6" -shard $i/$n 2>/dev/null | ./show.py | cut -c1-400 | head -4 > $d/out.$i ) &
done
wait
cat $d/out.* | sort | uniq -c | sort -rn | head -40
rm -rf $d
