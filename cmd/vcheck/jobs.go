package main

import "fmt"

var baseAssumptions = []string{
	"scheduling points are placed before every sync/atomic/channel/pool/map/connection operation of the instrumented packages; code between two points is executed atomically (sound for race-free code; race freedom itself is checked by C14)",
	"vinstr's rewrite (sync->vsync etc.) preserves the semantics of the rewritten operations; the shims reproduce Go's blocking and panic behaviour",
	"in-memory network: reliable ordered byte streams, faults only where the scenario injects them; time is not modelled (session/context ages are 0)",
	"deterministic LIFO sync.Pool (a legal behaviour of sync.Pool)",
}

func sched(name, params string, bound, shards int) Job {
	return Job{Mode: "sched", Name: name, Params: params, Bound: bound, Shards: shards}
}

var checks = map[string]Check{
	"C02": {
		Level:       "model_checking",
		Rule:        "stateless DFS over all thread interleavings of closed call/close/cut scenarios up to the stated preemption bound (raw protocol; json/pb/thrift-binary/http at bound 0 quick, 1 thorough), crossed with every cut offset and a hostile-reply alphabet; an execution is non-trivial if it contains a context switch; distinct = distinct observation logs",
		Assumptions: baseAssumptions,
		Jobs: func(tier string) []Job {
			var js []Job
			b := 1
			if tier == "thorough" {
				b = 2
			}
			for _, ev := range []string{"none", "localclose", "remoteclose", "break", "cutreq", "cutrep"} {
				js = append(js, sched("c02_live", "proto=raw,calls=1,event="+ev, b, 16))
			}
			// the other wire protocols: all non-preemptive schedules (quick) / one preemption (thorough)
			for _, pr := range []string{"json", "pb", "thrift", "http"} {
				for _, ev := range []string{"none", "localclose", "remoteclose", "break", "cutreq", "cutrep"} {
					j := sched("c02_live", "proto="+pr+",calls=1,event="+ev, 0, 1)
					if tier == "thorough" {
						j.Bound = 1
						j.Shards = 4
						j.Budget = 120
					}
					js = append(js, j)
				}
			}
			// a calling-side plugin whose post-write stage fails, crossed with the connection events
			for _, ev := range []string{"none", "localclose", "remoteclose", "break"} {
				js = append(js, sched("c02_live", "proto=raw,calls=1,hookfail=1,event="+ev, b, 8))
			}
			// the caller consumes the completion from its own channel and reads the status at once
			evs := []string{"remoteclose"}
			if tier == "thorough" {
				evs = []string{"remoteclose", "localclose", "break", "cutrep"}
			}
			for _, ev := range evs {
				js = append(js, sched("c02_live", "proto=raw,calls=1,wait=chan,event="+ev, b, 16))
			}
			// local Close and a connection loss at once
			bc := sched("c02_live", "proto=raw,calls=1,event=bothclose", 1, 16)
			bc.Budget = 150
			if tier == "thorough" {
				bc.Bound = 2
				bc.Budget = 600
			}
			js = append(js, bc)
			// calls answered with error replies (empty body: unknown route, undecodable argument, handler error, panic,
			// vetoes) complete as well, on every protocol
			for _, pr := range []string{"raw", "json", "pb", "thrift", "http"} {
				js = append(js, sched("c04_live", "proto="+pr+",mode=cause", 0, 1))
			}
			// two calls in flight that deliver to one shared completion channel (capacity = number of calls)
			js = append(js, sched("c02_live", "proto=raw,calls=2,shared=1,event=none", 0, 4))
			if tier == "thorough" {
				for _, ev := range []string{"localclose", "remoteclose", "break"} {
					j := sched("c02_live", "proto=raw,calls=2,shared=1,event="+ev, 0, 16)
					j.Budget = 600
					js = append(js, j)
				}
			}
			for _, k := range []string{"ok", "dup", "unknownseq", "codec0body", "badbody", "errstatus_body", "wrongtype_call", "wrongtype_push", "wrongtype_9", "okmeta", "truncated", "nothing"} {
				js = append(js, sched("c02_hostile", fmt.Sprintf("kind=%s,calls=1", k), b, 4))
			}
			return js
		},
	},
	"C07": {
		Level:       "model_checking",
		Rule:        "(a) explicit enumeration of all operation histories up to the stated depth over {accept, reject, SetID colliding/fresh, call, close, remote close, cut, peer close} on 2-3 connections, each run to quiescence on the real code with the index/health/notify/hook invariants evaluated in every quiescent state; (b) stateless DFS over all interleavings (preemption bound) of Close vs remote close/cut/Close, of colliding SetIDs, of a takeover racing a disconnect and of a rename racing a takeover of the old id; distinct = distinct observation logs",
		Assumptions: baseAssumptions,
		Jobs: func(tier string) []Job {
			var js []Job
			if tier == "thorough" {
				js = append(js, sched("c07_hist", "depth=5,slots=2", 0, 16))
				js = append(js, sched("c07_hist", "depth=4,slots=3", 0, 16))
			} else {
				js = append(js, sched("c07_hist", "depth=4,slots=2", 0, 8))
			}
			b := 2
			if tier == "thorough" {
				b = 3
			}
			// a running handler that waits for its session's close notification (which fires when the close begins)
			cn := sched("c08", "dir=in,closer=session,yields=0,nested=closenotify", 1, 8)
			if tier == "thorough" {
				cn.Bound = 2
				cn.Shards = 16
				cn.Budget = 300
			}
			js = append(js, cn)
			for _, k := range []string{"close_vs_rclose", "close_vs_cut", "close_vs_close", "setid_vs_setid", "takeover_vs_close", "rename_vs_takeover"} {
				j := sched("c07_race", "kind="+k, b, 4)
				if tier == "thorough" {
					j.Shards = 16
					j.Budget = 900
				}
				js = append(js, j)
			}
			return js
		},
	},
	"C01": {
		Level:       "model_checking",
		Rule:        "stateless DFS over all interleavings (preemption bound) of 2-3 concurrent Call/AsyncCall/Push operations (one session, both directions, two sessions) with tagged bodies+metadata of different lengths; the full (protocol x body codec x filter pipe) product over raw/json/pb/thrift-binary plus http x codec x {none, gzip} at bound 0, selected configurations deeper; handlers registered as functions and (ctl=1) as struct controllers; unknown-route handlers fed every message sequence over two sessions; oracles: result/handler input/metadata agree with the sender's tag, handler inputs stable across a yield, multiset of handled = multiset sent",
		Assumptions: baseAssumptions,
		Jobs: func(tier string) []Job {
			var js []Job
			for _, pr := range []string{"raw", "json", "pb", "thrift"} {
				for _, bd := range []string{"json", "plain", "plainnamed", "protobuf", "form", "xml"} {
					for _, pp := range []string{"none", "g", "m", "gm"} {
						b := 0
						if tier == "thorough" {
							b = 1
						}
						j := sched("c01", fmt.Sprintf("proto=%s,body=%s,pipe=%s,k=2", pr, bd, pp), b, 1)
						if tier == "thorough" {
							j.Shards = 4
							j.Budget = 60
						}
						js = append(js, j)
					}
				}
			}
			deep := []string{"proto=raw,body=json,k=2", "proto=raw,body=json,k=2,pipe=g", "proto=raw,body=json,k=2,ctl=1"}
			if tier == "thorough" {
				deep = []string{"proto=raw,body=json,k=2", "proto=raw,body=json,k=2,pipe=g", "proto=raw,body=json,k=2,ctl=1", "proto=raw,body=json,op=callpush,k=2,ctl=1", "proto=raw,body=plainnamed,k=2", "proto=raw,body=form,k=2,pipe=g", "proto=raw,body=json,shape=S2,k=1", "proto=raw,body=json,shape=S3", "proto=raw,body=plain,op=callpush,k=2", "proto=raw,body=protobuf,op=async,k=2"}
			}
			for _, d := range deep {
				j := sched("c01", d, 1, 16)
				if tier == "thorough" {
					j.Bound = 2
					j.Budget = 300
				}
				js = append(js, j)
			}
			// the HTTP-style protocol (CALL/REPLY only, gzip as its only filter)
			for _, bd := range []string{"json", "plain", "plainnamed", "protobuf", "form", "xml"} {
				for _, pp := range []string{"none", "g"} {
					j := sched("c01", fmt.Sprintf("proto=http,body=%s,pipe=%s,k=2", bd, pp), 0, 1)
					if tier == "thorough" {
						j.Bound = 1
						j.Shards = 4
						j.Budget = 60
					}
					js = append(js, j)
				}
			}
			// k sequential calls whose commands are retained and re-read after later calls reused the pooled objects
			for _, pr := range []string{"raw", "json"} {
				js = append(js, sched("c01", "proto="+pr+",body=json,shape=SEQ,k=4", 0, 1))
			}
			// unknown-route handlers on two sessions of one peer: every message sequence with empty/short/long bodies
			// (a handler never sees bytes of another message, of its own or of the other session)
			js = append(js, sched("c20", "kind=unknown,depth=3", 0, 2))
			// a call issued while the session reconnects, held by its handler while further calls use the session
			js = append(js, sched("c13_during", "more=3,pre=1", 0, 1), sched("c13_during", "more=2,pre=0", 0, 1))
			if tier == "thorough" {
				d := sched("c13_during", "more=3,pre=1", 1, 16)
				d.Budget = 300
				js = append(js, d)
			}
			return js
		},
	},
	"C08": {
		Level:       "model_checking",
		Rule:        "stateless DFS over all placements (interleavings up to the preemption bound) of Session.Close / Peer.Close relative to handler entry, handler steps, reply write and reply arrival, for a call in flight inbound, outbound or both, and for an inbound handler that itself calls or pushes to the other side, or waits for the session's close notification, before returning; Close racing a connection loss while a call of its own side is pending (raw protocol; inbound and outbound also over json, pb and thrift-binary); event order is part of the explored state; oracle from the event log",
		Assumptions: baseAssumptions,
		Jobs: func(tier string) []Job {
			var js []Job
			dirs := []string{"in", "out"}
			if tier == "thorough" {
				dirs = []string{"in", "out", "both", "out2"}
			} else {
				// several calls pending at once (two outbound; one inbound + one outbound): all non-preemptive schedules
				js = append(js, sched("c08", "dir=out2,closer=session,yields=0", 0, 16), sched("c08", "dir=both,closer=session,yields=0", 0, 16))
			}
			for _, d := range dirs {
				for _, c := range []string{"session", "peer"} {
					j := sched("c08", fmt.Sprintf("dir=%s,closer=%s,yields=1", d, c), 1, 8)
					if c == "peer" {
						j.Shards = 8
						if tier != "thorough" {
							j.Bound = 0 // Peer.Close spawns a closer per session: bound 1 costs ~20 CPU-minutes and is left to the thorough tier
						}
					}
					if tier == "thorough" {
						j.Bound = 2
						j.Shards = 16
						j.Budget = 300
						j.Params = fmt.Sprintf("dir=%s,closer=%s,yields=2", d, c)
					}
					js = append(js, j)
				}
			}
			if tier == "thorough" {
				// Peer.Close with a second, idle session of the closing peer
				for _, d := range []string{"in", "out"} {
					j := sched("c08", fmt.Sprintf("dir=%s,closer=peer,yields=0,idle=1", d), 0, 16)
					j.Budget = 300
					js = append(js, j)
				}
			}
			// the running handler itself calls / pushes to the other side before it returns (the reply of that nested
			// call arrives while Close is waiting for the handler)
			for _, n := range []string{"call", "push", "closenotify"} {
				j := sched("c08", "dir=in,closer=session,yields=0,nested="+n, 1, 16)
				if tier == "thorough" {
					j.Bound = 2
					j.Budget = 300
				}
				js = append(js, j)
			}
			// Close is waiting for a call of its own side when the connection is lost: the call ends with a connection
			// error and Close returns
			bc := sched("c02_live", "proto=raw,calls=1,event=bothclose", 1, 16)
			bc.Budget = 150
			if tier == "thorough" {
				bc.Bound = 2
				bc.Budget = 600
			}
			js = append(js, bc)
			// the other wire protocols (a reply may be written in several pieces)
			for _, pr := range []string{"json", "pb", "thrift"} {
				for _, d := range []string{"in", "out"} {
					j := sched("c08", fmt.Sprintf("dir=%s,closer=session,yields=1,proto=%s", d, pr), 1, 4)
					if tier == "thorough" {
						j.Bound = 2
						j.Shards = 16
						j.Budget = 120
					}
					js = append(js, j)
				}
			}
			return js
		},
	},
	"C03": {
		Level:       "model_checking",
		Rule:        "a scripted raw peer sends every frame of the alphabet {type byte x route x body x codec id x metadata} to a real server for every plugin veto stage and with/without unknown-handlers, then a probe call; all non-preemptive schedules (bound 0) for single frames, all interleavings up to the bound for every pair of back-to-back frames (same/different seq, blocking/panicking/erroring handlers); the oracle parses the server's wire output with an independent frame parser (raw protocol); the same alphabet and pairs also through the json, pb, thrift-binary and http protocols (frames built and parsed with the protocol's own Pack/Unpack, whose round trip is checked under C05); plus a PUSH or CALL whose handler stays blocked until the CALL received right behind it has been answered (all interleavings at bound 1/2, five protocols); plus every history of depth 4 (quick) / 6 over {CALL, server push with a one-hour write deadline, server push without deadline, two hours pass on the network clock}: every CALL still gets exactly one reply",
		Assumptions: baseAssumptions,
		Jobs: func(tier string) []Job {
			var js []Job
			b := 0
			if tier == "thorough" {
				b = 1
			}
			for _, v := range []string{"none", "postreadcallheader", "prereadcallbody", "postreadcallbody", "postreadpushheader", "prewritereply"} {
				for _, u := range []string{"0", "1"} {
					js = append(js, sched("c03_frames", "veto="+v+",unknown="+u, b, 1+3*b))
				}
			}
			if tier == "thorough" {
				js = append(js, sched("c03_pair", "", 2, 16))
			} else {
				js = append(js, sched("c03_pair", "", 1, 4))
			}
			// a handler (push or call) that stays blocked until the CALL behind it has been answered
			for _, pr := range []string{"raw", "json", "pb", "thrift", "http"} {
				sl := sched("c03_slow", "proto="+pr, 1, 2)
				if tier == "thorough" {
					sl.Bound = 2
					sl.Shards = 4
					sl.Budget = 120
				}
				js = append(js, sl)
			}
			// a reply larger than the peer's message size limit: still exactly one reply (or disconnection)
			for _, pr := range []string{"raw", "json", "pb", "thrift", "http"} {
				js = append(js, sched("c03_big", "proto="+pr, b, 1))
			}
			// messages with and without a write deadline alternating with calls while the network clock advances
			dl := sched("c03_deadline", "depth=4", 0, 1)
			dl.EnvOnly = true
			if tier == "thorough" {
				dl.Params = "depth=6"
				dl.Shards = 4
			}
			js = append(js, dl)
			// the same alphabet and pairs through the other protocols (frames built with the protocol's own Pack;
			// frames a protocol cannot carry are counted as not representable)
			for _, pr := range []string{"json", "pb", "thrift", "http"} {
				for _, u := range []string{"0", "1"} {
					js = append(js, sched("c03_frames", "veto=none,unknown="+u+",proto="+pr, b, 1+3*b))
				}
				pj := sched("c03_pair", "proto="+pr, 1, 2)
				if tier == "thorough" {
					pj.Bound = 2
					pj.Shards = 8
					pj.Budget = 300
				}
				js = append(js, pj)
			}
			return js
		},
	},
	"C04": {
		Level:       "model_checking",
		Rule:        "live sessions: every handler status of the alphabet (13 codes x message x cause strings with separators, escapes, non-ASCII, NUL) and every framework failure cause (unknown route, undecodable argument, panic, closed session, undecodable result, vetoes at each stage) over raw/json/pb/thrift-binary/http, all non-preemptive schedules; frame level: a REPLY carrying every status of the full alphabet through Pack->Unpack of every shipped protocol including both websocket sub-protocols, the HTTP-style protocol and the thrift struct protocol",
		Assumptions: baseAssumptions,
		Jobs: func(tier string) []Job {
			var js []Job
			for _, pr := range []string{"raw", "json", "pb", "thrift", "http"} {
				a := "short"
				if tier == "thorough" {
					a = "full"
				}
				js = append(js, sched("c04_live", "proto="+pr+",mode=status,alphabet="+a, 0, 1))
				js = append(js, sched("c04_live", "proto="+pr+",mode=cause", 0, 1))
			}
			// sequences of calls with mixed outcomes on recycled contexts (depth 3 quick / 4 thorough)
			d := "3"
			if tier == "thorough" {
				d = "4"
			}
			for _, pr := range []string{"raw", "json", "pb", "thrift", "http"} {
				sq := sched("c04_live", "proto="+pr+",mode=seq,depth="+d, 0, 4)
				sq.EnvOnly = true
				js = append(js, sq)
			}
			// the framework failure causes again with one preemption (the reply may be handled before the caller's
			// write call has returned)
			cb1 := sched("c04_live", "proto=raw,mode=cause", 1, 4)
			if tier == "thorough" {
				cb1.Bound = 2
				cb1.Shards = 16
				cb1.Budget = 300
			}
			js = append(js, cb1, Job{Mode: "enum", Name: "c04_frames", Shards: 4})
			// every handler outcome (result, status, unencodable result, panic, unknown route) through every filter pipe
			// over raw/json/pb/thrift/http: the caller sees the handler's / the framework's status
			js = append(js, sched("c12_live", "", 0, 1))
			// a call cancelled by a disconnection: the status the caller reads at the moment of completion
			// (from its own completion channel or after Done) is already the final non-OK status
			cb := 1
			if tier == "thorough" {
				cb = 2
			}
			js = append(js, sched("c02_live", "proto=raw,calls=1,wait=chan,event=remoteclose", cb, 16))
			js = append(js, sched("c02_live", "proto=raw,calls=1,wait=chan,event=break", cb-1, 16))
			return js
		},
	},
	"C05": {
		Level:       "exploration",
		Rule:        "bounded-exhaustive enumeration per protocol (raw, json, pb, thrift-binary, websocket json/pb sub-protocols; the HTTP-style protocol and the thrift struct protocol within their narrower documented field sets -- http: CALL/REPLY, URL-path methods, mapped content types, gzip only, header-shaped metadata compared as a sorted set; thrift-struct: thrift struct bodies, no codec choice, no filters): every value of each field alphabet against a base message (7 seqs, 3 types, 8 methods, 6 statuses, all metadata sequences of <=2 pairs over 10 atoms (quick: 1 pair + reduced 2-pair set), every registered codec id, all 256 single-byte bodies + escape mixes + 64 KiB, 5 pipes, boundary lengths) plus the full product of reduced alphabets; streams: every sequence of <=3 (quick) / 4 frames of a 7-frame alphabet through every uniform chunk size and every single split point, with per-frame size stability; a case is one message or one (sequence, chunking); classes = protocol x field class",
		Assumptions: []string{"field-by-field reference model written from the documented frame formats; domain limits are data in scen/c05.go (raw: 255/65535 byte limits; pb: service method must be valid UTF-8; ws sub-protocols are message-framed by the websocket layer)", "protocol instances are driven directly through Proto.Pack/Unpack over an in-memory reader"},
		Jobs: func(tier string) []Job {
			a, fr := "quick", "3"
			if tier == "thorough" {
				a, fr = "full", "4"
			}
			return []Job{
				{Mode: "enum", Name: "c05_roundtrip", Params: "alphabet=" + a, Shards: 16},
				{Mode: "enum", Name: "c05_stream", Params: "frames=" + fr, Shards: 16},
			}
		},
	},
	"C11": {
		Level:       "exploration",
		Rule:        "bounded-exhaustive enumeration per codec (json, xml, form, plain, protobuf, thrift): round trip of a compiled zoo of destination types over boundary values (integer/float extremes, all 256 single-byte strings (valid UTF-8 only where the codec's domain requires), multi-byte runes, lengths 0..17, slices/arrays of 0..3 elements, nested structs) compared with reflect.DeepEqual (nil == empty slice); decoder totality: every string of length <=4 (quick) / 6 over a 10-13 symbol per-codec alphabet, every prefix and 7 single-byte mutations at every offset of valid encodings, into every destination type, with guard bytes around the destination; a case = (codec, type class, value) or (codec, input bytes, destination)",
		Assumptions: []string{"domain limits are data in scen/c11.go: JSON/XML/protobuf strings must be valid UTF-8, XML strings exclude control characters and fixed arrays, NaN excluded"},
		Jobs: func(tier string) []Job {
			n := "4"
			if tier == "thorough" {
				n = "6"
			}
			return []Job{
				{Mode: "enum", Name: "c11_roundtrip", Shards: 4},
				{Mode: "enum", Name: "c11_garbage", Params: "len=" + n, Shards: 16},
			}
		},
	},
	"C12": {
		Level:       "exploration",
		Rule:        "bounded-exhaustive enumeration: every pipe over the registered filter ids up to length 4 (quick) / 8 (thorough, with a 1 MiB payload) plus md5 pipes of length 254, 255 and 256, crossed with payloads {empty, all 256 single bytes, 1 KiB compressible, 1 KiB incompressible}; every single-byte corruption (every offset x 255 values), truncation and extension of md5-packed payloads of length 0..32 (quick) / 96; unregistered ids at every position refused by Append and by Unpack of raw/json/pb frames; live sessions: a call sent through each of 6 pipes over 5 protocols (http: gzip only), handler returning a result / an error status / a result the codec cannot encode / panicking / route unknown / adding a registered and an unregistered filter in one call, reply pipe read from the reply frame and status checked (all non-preemptive schedules)",
		Assumptions: []string{"registered filters in the harness process: gzip ('g', level 5) and md5 ('m')"},
		Jobs: func(tier string) []Job {
			l, c, big := "4", "32", "0"
			if tier == "thorough" {
				l, c, big = "8", "96", "1"
			}
			return []Job{
				{Mode: "enum", Name: "c12_pipes", Params: "len=" + l + ",big=" + big, Shards: 8},
				{Mode: "enum", Name: "c12_corrupt", Params: "len=" + c, Shards: 8},
				sched("c12_live", "", 0, 1),
			}
		},
	},
	"C10": {
		Level:       "exploration",
		Rule:        "(i) both exported mappers on every identifier of length <=6 (quick) / 8 over {A,B,a,b,_,1} x 5 prefixes: total, deterministic, equal to a reference implementation on the sub-language the documentation defines (letter words joined by _ or __), README rows verbatim; (ii) live dispatch: every ordered pair of 10 compiled controller/function registrations (chosen to cover every mapping rule and name-collision class) x 3x3 group nestings x both mappers x unknown-handlers set/unset; after registration every returned name and 15+ near-misses per name (case, separators, trailing and doubled slashes, ./ and ../ segments) are requested as CALL and as PUSH, over the raw protocol and (CALL, URL-path names) over the HTTP-style protocol; registrations also with logging switched off; (iii) a header plugin that rewrites the requested name (aliases, case folding) x 11 wire names x CALL/PUSH x unknown-handlers: the handler registered under the rewritten name runs and sees that name; a case = one (identifier, prefix) or one registration program",
		Assumptions: []string{"the framework's Fatalf is intercepted by a logger outputter that panics on CRITICAL, so a registration conflict is observable without exiting", "identifier classes with leading/trailing/3+ underscores or digits are checked for totality and determinism only (the documentation does not define their mapping)"},
		Jobs: func(tier string) []Job {
			l := "6"
			if tier == "thorough" {
				l = "8"
			}
			return []Job{
				{Mode: "enum", Name: "c10_mapper", Params: "len=" + l, Shards: 8},
				sched("c10_route", "", 0, 16),
				sched("c10_route", "proto=http", 0, 8),
				sched("c10_rewrite", "", 0, 1),
			}
		},
	},
	"C20": {
		Level:       "model_checking",
		Rule:        "differential explicit-state enumeration: every first-user operation sequence up to depth 3 (quick) / 4 over the setter alphabet of Message (15 operations, reading the message back included), Args (6), pooled Socket (5) and the handler context (10 ways to dirty it x handler returns / fails / panics; plus every sequence of messages for unregistered routes with empty/short/long bodies on two sessions, handled by the unknown-call/unknown-push handlers), release to the (LIFO) pool, re-acquire with pointer identity asserted, then every second-user sequence of length <=2; all public getters, the decode path and the packed bytes must equal those of a freshly constructed object; for contexts the second handler's view and the exact reply bytes are compared with the fresh-context reference",
		Assumptions: baseAssumptions,
		Jobs: func(tier string) []Job {
			d := "3"
			if tier == "thorough" {
				d = "4"
			}
			var js []Job
			for _, k := range []string{"message", "args", "socket", "ctx"} {
				j := sched("c20", "kind="+k+",depth="+d, 0, 4)
				if tier == "thorough" {
					j.Shards = 8
				}
				js = append(js, j)
			}
			// messages for unregistered routes (unknown-call/unknown-push handlers) on two sessions: every sequence
			// of calls/pushes with empty, short and long bodies; each handler sees its own body bytes only
			u := sched("c20", "kind=unknown,depth=3", 0, 2)
			u.EnvOnly = true
			if tier == "thorough" {
				u = sched("c20", "kind=unknown,depth=4", 0, 8)
			}
			js = append(js, u)
			return js
		},
	},
	"C09": {
		Level:       "model_checking",
		Rule:        "every plugin configuration of the alphabet {0-2 global-left, 0-1 global-right, group nesting depth 0-2 with/without group plugins, with/without a handler-level plugin, late append none/left/right or late removal of a global plugin, plugins implementing all stages or exactly one, no veto or one veto at every (plugin, pre-handler stage)} for calls and pushes is run on live sessions under every non-preemptive schedule; the recorded (plugin, stage, seq) trace is compared with a reference trace builder written from the documentation; a second route without group/handler plugins checks scoping; sibling registrations check chain isolation; calling-side stages and vetoes are enumerated separately; a handler whose result cannot be encoded (error reply written instead) may skip the post-write stage but fires no stage twice",
		Assumptions: baseAssumptions,
		Jobs: func(tier string) []Job {
			var js []Job
			b := 0
			for _, k := range []string{"call", "push"} {
				for _, l := range []string{"none", "left", "right", "remove"} {
					js = append(js, sched("c09", "kind="+k+",late="+l, b, 2))
				}
			}
			// the handler's result cannot be encoded: the reply is replaced by an error reply, reply stages still at most once
			for _, l := range []string{"none", "left"} {
				js = append(js, sched("c09", "kind=call,late="+l+",result=bad", b, 2))
			}
			// the calling side at one preemption: reply stages may not overtake the post-write stage
			js = append(js, sched("c09_siblings", "", b, 1), sched("c09_caller", "", 1, 2))
			// a call/push that is re-sent after a redial from the write path: every calling-side hook at most once
			js = append(js, sched("c13_revive", "op=call,budget=1", 1, 2), sched("c13_revive", "op=push,budget=1", 1, 2))
			if tier == "thorough" {
				for i := range js {
					js[i].Bound = 1
					js[i].Shards = 8
					js[i].Budget = 300
				}
			}
			return js
		},
	},
	"C15": {
		Level:       "model_checking",
		Rule:        "explicit enumeration of all histories up to depth 3 (quick) / 4 over 22 operations {ok call, 7 failure probes, proxied call with backend error, proxied call/push with backend down, secure key mismatch, auth reject, overload reject, pending call cut by a corrupt frame, unknown-route and OK replies whose write fails, push whose write fails with a transient error / end of file / closed pipe / broken pipe / connection reset}; after each history every failure probe is repeated and its (code,msg,cause) compared with the triple observed before the history in the same pristine-restored process, and every predefined status is compared field by field; the same comparison after every history of proxied calls through a mixer/multiclient session pool whose pooled sessions fail",
		Assumptions: append([]string{"the predefined statuses are restored to their pristine values at the start of every execution (they are process-global), so every history starts from the documented state"}, baseAssumptions...),
		Jobs: func(tier string) []Job {
			d := "3"
			if tier == "thorough" {
				d = "4"
			}
			j := sched("c15", "depth="+d, 0, 16)
			j.EnvOnly = true
			if tier == "thorough" {
				j.Shards = 16
			}
			// proxy forwarding through a mixer/multiclient session pool (failures of pooled sessions)
			mu := sched("c19_multi", "depth=4", 0, 2)
			mu.EnvOnly = true
			if tier == "thorough" {
				mu.Params = "depth=6"
				mu.Shards = 8
			}
			return []Job{j, mu}
		},
	},
	"C16": {
		Level:       "model_checking",
		Rule:        "a scripted raw client sends every first message of the alphabet {good/bad/erroring/undecodable AUTH_CALL, CALL, PUSH, REPLY, AUTH_REPLY, unknown type, garbage, every strict prefix of a valid AUTH_CALL, nothing} with 0-2 application frames pipelined before or after the verdict, for checker verdicts accept/reject/reject-with-value, a checker that does or does not rename the session (SetID) before deciding, a client that may hang up before the verdict, entering through Peer.ServeConn or through the accept loop of a listener, over the raw protocol (bound 2/3) and over json and pb (bound 0/1); all interleavings of client, accept path and reader up to the preemption bound; plus two connections authenticating concurrently (valid / wrong token of equal length, plain and json token codecs, checker yielding before it compares; bound 1/2); oracle: handler and per-message hook counters, checker count, AUTH_REPLY count on the wire, connection closed and not indexed when rejected",
		Assumptions: baseAssumptions,
		Jobs: func(tier string) []Job {
			var js []Job
			if tier == "thorough" {
				j := sched("c16", "", 3, 16)
				j.Budget = 900
				js = append(js, j)
			} else {
				js = append(js, sched("c16", "", 2, 16))
			}
			// two connections authenticating at once (valid token / wrong token of the same length), token carried by the
			// plain or the json codec, the checker doing some work between receiving and comparing the token
			for _, cd := range []string{"plain", "json"} {
				j := sched("c16_two", "codec="+cd, 1, 4)
				if tier == "thorough" {
					j.Bound = 2
					j.Shards = 16
					j.Budget = 300
				}
				js = append(js, j)
			}
			// the same client scripts over the json and pb protocols (the auth message types have no thrift or http encoding)
			for _, pr := range []string{"json", "pb"} {
				j := sched("c16", "proto="+pr, 0, 8)
				if tier == "thorough" {
					j.Bound = 1
					j.Shards = 16
					j.Budget = 300
				}
				js = append(js, j)
			}
			return js
		},
	},
	"C17": {
		Level:       "model_checking",
		Rule:        "full product {call,push} x secure marker {absent,true,false} x accept marker {absent,true,false} x key pair {same 16/24/32 bytes, different} x value length {0,1,15,16,17,100} for the json and xml body codecs over the raw protocol and the json codec over the json and pb protocols, on live sessions under every non-preemptive schedule; oracle: handler argument/caller result equality, plaintext substring search on the captured wire in both directions, reply encrypted iff requested, different key => no handler/no result and non-OK, unmarked traffic byte-identical to a run without the plugin; plus every sequence of 4 (quick) / 5 marked and unmarked calls and pushes on one session, each judged on its own slice of the captured wire",
		Assumptions: baseAssumptions,
		Jobs: func(tier string) []Job {
			js := []Job{sched("c17", "codec=json", 0, 2), sched("c17", "codec=xml", 0, 2), sched("c17", "codec=json,proto=json", 0, 2), sched("c17", "codec=json,proto=pb", 0, 2)}
			// a secure call/push that is re-sent after a redial from the write path is delivered intact exactly once
			b := 1
			if tier == "thorough" {
				b = 2
			}
			// every sequence of marked/unmarked calls and pushes on one session (recycled contexts and swap maps)
			for _, pr := range []string{"raw", "json"} {
				sq := sched("c17_seq", "depth=4,proto="+pr, 0, 2)
				sq.EnvOnly = true
				if tier == "thorough" {
					sq.Params = "depth=5,proto=" + pr
					sq.Shards = 8
				}
				js = append(js, sq)
			}
			for _, op := range []string{"call", "push"} {
				j := sched("c13_revive", "secure=1,budget=1,op="+op, b, 4)
				j.Budget = 300
				js = append(js, j)
			}
			return js
		},
	},
	"C18": {
		Level:       "model_checking",
		Rule:        "(a) all histories up to depth 5 (quick) / 7 over {connect, remote close i, local close i, update limit to 0 (off)/1/2/3} with N in {1,2} against a counter model (admit iff the limit is off or live < limit, where live counts every admitted session that has not ended, rejected closed, CountSession exact); (b) all interleavings (preemption bound) of 3 concurrent connects with one early disconnect: never more than N admitted at once and exactly N admitted afterwards; (c) token bucket: taker threads x attempts against refill ticks delivered to the limiter's own goroutine, all interleavings: admitted <= capacity + refill x ticks + ticks; (e) limit on a dialing peer whose sessions redial: every history of depth 6 (quick) / 8 over {dial, server cuts session i (auto-redial), close session i} with N in {1,2}: a reconnecting session keeps exactly its one slot; (d) live session: every history of depth 6 (quick) / 7 over {call to an unlimited route, call to a route with a handler limit, push, refill tick, change of the refill interval}: a call is OK iff its handler ran, a rejected call carries the overload error and is not handled, and no message is admitted when an exact token count (full at the start, +1 per tick up to the capacity, -1 per admission) says the total or the handler bucket is empty",
		Assumptions: baseAssumptions,
		Jobs: func(tier string) []Job {
			if tier == "thorough" {
				a := sched("c18_hist", "depth=7,off=1", 0, 16)
				b := sched("c18_race", "threads=3", 3, 16)
				b.Budget = 600
				c := sched("c18_qps", "takers=3,takes=2,ticks=2", 3, 16)
				c.Budget = 600
				d := sched("c18_qps", "takers=2,takes=3,ticks=2", -1, 16)
				d.Budget = 600
				live := sched("c18_live", "depth=7", 0, 8)
				live.EnvOnly = true
				rd := sched("c18_redial", "depth=8", 0, 8)
				rd.EnvOnly = true
				rd2 := sched("c18_redial", "depth=4", 0, 8)
				rd2.Budget = 300
				return []Job{a, b, c, d, live, rd, rd2}
			}
			live := sched("c18_live", "depth=6", 0, 4)
			live.EnvOnly = true
			rd := sched("c18_redial", "depth=6", 0, 2)
			rd.EnvOnly = true
			return []Job{live, rd, sched("c18_hist", "depth=5,off=1", 0, 4), sched("c18_race", "threads=3", 2, 8), sched("c18_qps", "takers=2,takes=3,ticks=2", 2, 2), sched("c18_qps", "takers=1,takes=6,ticks=1", 3, 1)}
		},
	},
	"C19": {
		Level:       "model_checking",
		Rule:        "full product (4320 configurations) {call,push} x {method served by the backend, served nowhere} x caller codec {json,plain,protobuf} x 4 body byte strings x 5 request-metadata sets (duplicate key, real-ip present/absent) x 6 backend statuses x backend failure {none, before, during forwarding} on a live client -> proxy -> backend chain (all links over raw, and again over json, pb and thrift-binary), compared with the same request sent directly to an identical backend (metamorphic oracle: body bytes, status triple, reply metadata one value per key, reply codec, backend invocation count and metadata view, real-ip injected iff absent, 502 on backend failure); plus every sequence of 4 (quick) / 6 calls and pushes with empty, short and long bodies through one proxy, each compared with the direct call and with what the backend received; plus a call/push that reaches a redial-enabled forwarder while it is reconnecting to the backend (gated so that the loss precedes the request): result equal to the direct one; plus every history of depth 4 (quick) / 6 over {call, call whose backend connection is reset / ends cleanly after the backend handled it, push, backend closes the idle pooled connections} with a mixer/multiclient session pool as the proxy's forwarder: forwarded exactly once, 502 on failure, never re-sent",
		Assumptions: append([]string{"backend statuses in the reserved connection-class range 100..199 are outside the alphabet (the plugin documents rewriting them to 502)", "quick tier: deterministic default schedule per configuration; thorough: all non-preemptive schedules within a time budget"}, baseAssumptions...),
		Jobs: func(tier string) []Job {
			j := sched("c19", "", 0, 8)
			j.EnvOnly = true
			// every sequence of calls/pushes with empty, short and long bodies through one proxy (pooled contexts reused)
			sq := sched("c19_seq", "depth=4", 0, 4)
			sq.EnvOnly = true
			// a request that arrives while the redial-enabled forwarder is reconnecting to the backend
			rd := sched("c19_redial", "", 0, 1)
			rd.EnvOnly = true
			// the proxy forwards through a mixer/multiclient session pool: histories of calls, calls whose backend
			// connection is lost (reset / clean end of stream) after the backend handled them, pushes, idle closes
			mu := sched("c19_multi", "depth=4", 0, 2)
			mu.EnvOnly = true
			if tier == "thorough" {
				mu.Params = "depth=6"
				mu.Shards = 8
			}
			js := []Job{j, sq, rd, mu}
			if tier == "thorough" {
				ms := sched("c19_multi", "depth=3", 0, 8)
				ms.Budget = 300
				js = append(js, ms)
				rs := sched("c19_redial", "", 0, 16)
				rs.Budget = 300
				js = append(js, rs)
			}
			// the same product and sequences with all three links over the json, pb and thrift-binary protocols
			for _, pr := range []string{"json", "pb", "thrift"} {
				pj := sched("c19", "proto="+pr, 0, 4)
				pj.EnvOnly = true
				ps := sched("c19_seq", "depth=4,proto="+pr, 0, 2)
				ps.EnvOnly = true
				js = append(js, pj, ps)
			}
			if tier == "thorough" {
				k := sched("c19", "", 0, 16)
				k.Budget = 900
				js[1].Params = "depth=6"
				js[1].Shards = 8
				js = append(js, k)
			}
			return js
		},
	},
	"C13": {
		Level:       "model_checking",
		Rule:        "client session created by Peer.Dial against an in-memory listener served by the real accept loop; fault alphabet {loss while idle (break / remote close), while awaiting a reply, during the request write at every byte offset, noticed by reader and writer at once} x redial budget {0,1,2,unlimited} x server availability {reachable at once, after 1 refused attempt, (when that exhausts the first round) never again}; all interleavings up to the preemption bound; oracle: in-flight call completes, same Session value healthy again with its id, PostDial(isRedial) ran, indexed, later call succeeds -- or, budget exhausted: close notification, not indexed, later call fails with a connection error within one further round of dial attempts (attempts counted by the network shim)",
		Assumptions: append([]string{"time.Sleep(redialInterval) is a yield; dial reachability is decided by the harness per attempt"}, baseAssumptions...),
		Jobs: func(tier string) []Job {
			var js []Job
			for _, f := range []string{"idle", "rclose", "awaiting", "write", "both", "both2"} {
				for _, b := range []string{"0", "1", "2", "-1"} {
					for _, d := range []string{"0", "1", "3"} {
						if b == "0" && d != "0" {
							continue
						}
						j := sched("c13", "fault="+f+",budget="+b+",down="+d, 0, 1)
						if tier == "thorough" {
							j.Bound = 1
							j.Shards = 4
							j.Budget = 120
							if b == "1" && d == "0" && (f == "both" || f == "both2") {
								j.Shards = 16
								j.Budget = 900
							}
						} else if b == "1" && (f == "idle" || f == "awaiting" || f == "both" || f == "both2") && d != "3" {
							j.Bound = 1
							j.Shards = 4
							j.Budget = 60
							if f == "both2" {
								j.Shards = 8
							}
						}
						js = append(js, j)
					}
				}
			}
			// the server comes back after the budget was exhausted; the later operation redials from the write path
			for _, op := range []string{"call", "push"} {
				for _, b := range []string{"1", "2"} {
					j := sched("c13_revive", "op="+op+",budget="+b, 1, 2)
					if tier == "thorough" {
						j.Bound = 2
						j.Shards = 8
						j.Budget = 300
					}
					js = append(js, j)
				}
			}
			// a call issued while the reconnect is in progress (client dial hook held at a gate)
			du := sched("c13_during", "more=3,pre=1", 0, 1)
			if tier == "thorough" {
				du.Bound = 1
				du.Shards = 16
				du.Budget = 300
			}
			js = append(js, du)
			// the dialing peer runs the overload plugin with a connection limit: a session that reconnects keeps its slot
			rd := sched("c18_redial", "depth=6", 0, 2)
			rd.EnvOnly = true
			js = append(js, rd)
			// repeated losses: the reconnected session loses its new connection again (break, then remote close)
			for _, prm := range []string{"fault=idle,budget=1,down=0,losses=3", "fault=idle,budget=1,down=1,losses=3", "fault=idle,budget=2,down=1,losses=4", "fault=idle,budget=2,down=2,losses=3", "fault=idle,budget=-1,down=3,losses=3", "fault=awaiting,budget=2,down=1,losses=2", "fault=write,budget=1,down=0,losses=2", "fault=idle,budget=1,down=0,losses=2,setid=0"} {
				j := sched("c13", prm, 0, 1)
				if tier == "thorough" {
					j.Bound = 1
					j.Shards = 4
					j.Budget = 120
				}
				js = append(js, j)
			}
			// sessions that keep the default id (the dialled connection's address, which changes with every redial)
			for _, f := range []string{"idle", "awaiting"} {
				for _, b := range []string{"1", "2"} {
					j := sched("c13", "fault="+f+",budget="+b+",down=0,setid=0", 0, 1)
					if tier == "thorough" {
						j.Bound = 1
						j.Shards = 4
						j.Budget = 120
					}
					js = append(js, j)
				}
			}
			// the unavailable attempts fail in the client's PostDial hook (server reachable at the network level)
			for _, f := range []string{"idle", "awaiting", "write"} {
				for _, b := range []string{"1", "2"} {
					for _, d := range []string{"1", "3"} {
						j := sched("c13", "fault="+f+",budget="+b+",down="+d+",hook=1", 0, 1)
						if tier == "thorough" {
							j.Bound = 1
							j.Shards = 4
							j.Budget = 120
						}
						js = append(js, j)
					}
				}
			}
			return js
		},
	},
	"C14": {
		Level:       "model_checking",
		Rule:        "race mode: the scenario binary is built with -race; the scheduler's hand-off is invisible to the detector and the shims publish exactly the happens-before edges of the real primitives, so every explored schedule is checked for data races exactly; scenarios: 2-3 threads each performing one documented-concurrent operation {Call, AsyncCall, Push, SetID, Swap store/load, Close, remote Close, GetSession, RangeSession, CountSession, age setters/getters, Health/ID, server-side Call, a call answered with an error whose status is read later} on shared sessions/peers; 23 operation pairs (quick) / all pairs and selected triples (thorough) x all interleavings up to the preemption bound; raw protocol plus three thrift-binary pairs (both directions at once); plus Dial with redial enabled against a server that drops the new connection at once while another goroutine enumerates, counts or pushes on the peer's sessions",
		Assumptions: append([]string{"a race report is attributed to the schedule in which it first appears (the detector reports each racing pair once per process); reports produced while an execution is being torn down are ignored"}, baseAssumptions...),
		Jobs: func(tier string) []Job {
			pairs := [][]string{{"call", "call"}, {"call", "push"}, {"call", "close"}, {"call", "rclose"}, {"call", "setid"}, {"call", "swap"}, {"call", "srvcall"}, {"push", "close"}, {"setid", "lookup"}, {"setid", "range"}, {"setid", "count"}, {"setid", "setid"}, {"swap", "swap"}, {"close", "rclose"}, {"close", "close"}, {"close", "lookup"}, {"close", "range"}, {"async", "close"}, {"ages", "call"}, {"health", "close"}, {"srvcall", "rclose"}, {"errcall", "call"}, {"errcall", "errone"}}
			if tier == "thorough" {
				ops := []string{"call", "push", "setid", "swap", "close", "lookup", "range", "count", "ages", "srvcall", "rclose", "health", "async", "errcall", "errone"}
				pairs = nil
				for i, a := range ops {
					for _, b := range ops[i:] {
						pairs = append(pairs, []string{a, b})
					}
				}
				pairs = append(pairs, []string{"call", "close", "lookup"}, []string{"call", "setid", "range"}, []string{"push", "rclose", "count"}, []string{"async", "swap", "close"})
			}
			var js []Job
			for _, pr := range pairs {
				params := "a=" + pr[0] + ",b=" + pr[1]
				if len(pr) > 2 {
					params += ",c=" + pr[2]
				}
				j := sched("c14_soup", params, 0, 2)
				j.Race = true
				if pr[0] == "errcall" {
					j.Shards = 8 // three calls in flight: a larger space
					j.Budget = 240
				}
				if tier == "thorough" {
					j.Bound = 1
					j.Shards = 8
					j.Budget = 120
				}
				js = append(js, j)
			}
			for _, pr := range []string{"a=call,b=call", "a=call,b=srvcall", "a=push,b=srvcall"} {
				t := sched("c14_soup", "proto=thrift,"+pr, 0, 2)
				t.Race = true
				if tier == "thorough" {
					t.Bound = 1
					t.Shards = 8
					t.Budget = 120
				}
				js = append(js, t)
			}
			// Dial on a redial-enabled peer, the server dropping the fresh connection, sessions enumerated concurrently
			for _, prm := range []string{"b=range,after=none", "b=count,after=none", "b=push,after=none"} {
				d := sched("c14_dial", prm, 0, 2)
				d.Race = true
				if tier == "thorough" {
					d.Bound = 1
					d.Shards = 8
					d.Budget = 120
				}
				js = append(js, d)
			}
			if tier == "thorough" {
				d := sched("c14_dial", "b=range,after=call", 1, 8)
				d.Race = true
				d.Budget = 120
				js = append(js, d)
			}
			return js
		},
	},
	"C06": {
		Level:       "fault_enumeration",
		Rule:        "per protocol (raw, json, pb, thrift-binary, http) a live server session is fed one hostile input and then EOF, next to a control session on the same peer: (a) every byte string up to length 4 (quick) / 6 over a 7-symbol per-protocol alphabet, (b) every prefix of every frame of a 4-frame alphabet packed by the real protocol, (c) 9 single-byte substitutions (0xe2 and 0xc3, the lead bytes of cut-off UTF-8 sequences, included) at every offset of those frames, (d) the size field (size word / Content-Length) set to 12 boundary values around the read limit followed by a 64 KiB payload; oracles: no escaped panic, no blocked goroutine after EOF and close, session cleanly ended (health, close notification, index), control session answers a probe, bytes allocated while handling the input <= limit + fixed slack, oversize announcement => disconnect with at most the transport read-ahead consumed; classes (b) and (c) again with a call of the attacked session waiting for a reply, which must complete (non-OK) once the input is exhausted; and (raw, json) with the attacked peer logging every message in detail and serving unknown routes through the unknown handlers; a case = one input; distinct = distinct observation logs",
		Assumptions: append([]string{"allocation is measured with runtime.MemStats.TotalAlloc around the handling of one input (slack 768 KiB + 2x input length); inputs are fed under the deterministic default schedule (quick) / all non-preemptive schedules (thorough, raw)", "read limits 1024 (all protocols) and 64 / 1 MiB (raw)"}, baseAssumptions...),
		Jobs: func(tier string) []Job {
			var js []Job
			l := "4"
			if tier == "thorough" {
				l = "6"
			}
			for _, pr := range []string{"raw", "json", "pb", "thrift", "http"} {
				for _, cl := range []string{"prefix", "subst", "length", "alphabet"} {
					j := sched("c06", "proto="+pr+",class="+cl+",len="+l, 0, 2)
					j.EnvOnly = true
					if tier == "thorough" {
						j.Shards = 8
					}
					js = append(js, j)
				}
			}
			// the attacked session has a call of its own waiting for a reply
			for _, pr := range []string{"raw", "json", "pb", "thrift", "http"} {
				for _, cl := range []string{"prefix", "subst"} {
					j := sched("c06", "proto="+pr+",class="+cl+",len="+l+",pending=1", 0, 2)
					j.EnvOnly = true
					if tier == "thorough" {
						j.Shards = 8
					}
					js = append(js, j)
				}
			}
			// the attacked peer logs every message in detail and serves unknown routes (raw byte bodies reach the log)
			for _, pr := range []string{"raw", "json"} {
				for _, cl := range []string{"prefix", "subst"} {
					j := sched("c06", "proto="+pr+",class="+cl+",len="+l+",detail=1", 0, 2)
					j.EnvOnly = true
					js = append(js, j)
				}
			}
			for _, lim := range []string{"64", "1048576"} {
				j := sched("c06", "proto=raw,class=length,limit="+lim, 0, 1)
				j.EnvOnly = true
				js = append(js, j)
			}
			if tier == "thorough" {
				for _, cl := range []string{"prefix", "subst"} {
					js = append(js, sched("c06", "proto=raw,class="+cl, 0, 16))
				}
			}
			return js
		},
	},
}
