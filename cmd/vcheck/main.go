// vcheck is the driver behind every check registered in MANIFEST.json:
//
//	vcheck <property> <quick|thorough>
//	vcheck replay <replay.json>
//
// It instruments the *current* /repo tree, builds the worker against it, runs
// the property's jobs on all cores, aggregates evidence, matches violations
// against known_findings.json and prints VIOLATION / KNOWN-FINDING lines.
package main

import (
	"bytes"
	"encoding/json"
	"fmt"
	"os"
	"os/exec"
	"path/filepath"
	"regexp"
	"runtime"
	"sort"
	"strconv"
	"strings"
	"sync"
	"time"
)

// verifDir is the directory the checks run from (the registered commands cd to /verif first;
// a `vp run` snapshot runs from its own copy).
var verifDir = func() string {
	if d, err := os.Getwd(); err == nil {
		if _, err := os.Stat(filepath.Join(d, "cmd", "vcheck")); err == nil {
			return d
		}
	}
	return "/verif"
}()

// Job is one exploration or enumeration, possibly sharded over processes.
type Job struct {
	Mode    string // sched | enum
	Name    string
	Params  string
	Bound   int
	Shards  int
	Budget  float64 // seconds per shard; 0 = none
	Horizon int
	Race    bool
	EnvOnly bool // default schedule only: branch on environment (input/configuration) choices
}

// Check describes one property's check.
type Check struct {
	Level       string // evidence level
	Rule        string
	Assumptions []string
	Jobs        func(tier string) []Job
}

type stats struct {
	Executions   int64            `json:"executions"`
	Steps        int64            `json:"steps"`
	ChoicePoints int64            `json:"choice_points"`
	MaxEnabled   int              `json:"max_enabled"`
	MaxChoices   int              `json:"max_choices_in_one_execution"`
	Switching    int64            `json:"executions_with_context_switch"`
	DistinctObs  int              `json:"distinct_observation_logs"`
	HorizonHits  int64            `json:"horizon_hits"`
	Bound        int              `json:"preemption_bound"`
	Complete     bool             `json:"complete"`
	Sample       []string         `json:"sample_obs"`
	SampleSched  []int            `json:"sample_schedule"`
	Counters     map[string]int64 `json:"counters"`
	States       int64            `json:"states"`
	Pruned       int64            `json:"pruned"`
	Races        int64            `json:"race_reports"`
}

type violation struct {
	Scenario string   `json:"scenario"`
	Params   string   `json:"params,omitempty"`
	Verdict  string   `json:"verdict"`
	Detail   string   `json:"detail"`
	Choices  []int    `json:"choices"`
	Obs      []string `json:"obs,omitempty"`
	Replayed int      `json:"replayed_identically"`
	Key      string   `json:"key"`
	Bound    int      `json:"bound"`
	Race     bool     `json:"race,omitempty"`
}

type enumViolation struct {
	Key    string `json:"key"`
	Case   string `json:"case"`
	Detail string `json:"detail"`
}

type enumResult struct {
	Evaluations int64            `json:"evaluations"`
	Classes     []string         `json:"classes"`
	Samples     []string         `json:"samples"`
	Violations  []enumViolation  `json:"violations"`
	Counters    map[string]int64 `json:"counters"`
	Incomplete  string           `json:"incomplete"`
}

type result struct {
	Kind       string      `json:"kind"`
	Name       string      `json:"name"`
	Params     string      `json:"params"`
	Shard      int         `json:"shard"`
	Stats      *stats      `json:"stats"`
	Violations []violation `json:"violations"`
	Enum       *enumResult `json:"enum"`
	WallS      float64     `json:"wall_s"`
	Error      string      `json:"error"`
}

type finding struct {
	Property string `json:"property"`
	State    string `json:"state"` // known | fixed
	Match    string `json:"match"` // regexp on "<scenario> <key>"
	What     string `json:"what"`
	Commit   string `json:"commit,omitempty"`
}

func env() []string {
	e := os.Environ()
	e = append(e, "GOFLAGS=-mod=mod", "GOPROXY=off", "GOSUMDB=off", "GOTOOLCHAIN=local")
	return e
}

func run(dir string, name string, args ...string) (string, error) {
	cmd := exec.Command(name, args...)
	cmd.Dir = dir
	cmd.Env = env()
	var out bytes.Buffer
	cmd.Stdout = &out
	cmd.Stderr = &out
	err := cmd.Run()
	return out.String(), err
}

// build instruments /repo and builds the worker; returns the binary path.
func build(work string, race bool, yields string) (string, error) {
	instr := filepath.Join(work, "instr")
	if _, err := os.Stat(filepath.Join(instr, "overlay.json")); err != nil {
		args := []string{"-repo", repoDir(), "-keyroot", "/repo", "-out", instr, "-overlay-src", filepath.Join(verifDir, "overlay")}
		if yields != "" {
			args = append(args, "-yield", yields)
		}
		out, err := run(verifDir, filepath.Join(verifDir, "bin", "vinstr"), args...)
		if err != nil {
			return "", fmt.Errorf("vinstr failed: %v\n%s", err, out)
		}
	}
	bin := filepath.Join(work, "worker")
	args := []string{"build", "-overlay", filepath.Join(instr, "overlay.json")}
	if race {
		bin += "-race"
		args = append(args, "-race", "-gcflags=all=-d=checkptr=0")
	}
	args = append(args, "-o", bin, "./worker")
	out, err := run(verifDir, "go", args...)
	if err != nil {
		return "", fmt.Errorf("go build failed: %v\n%s", err, out)
	}
	return bin, nil
}

// repoDir is /repo unless VERIF_REPO names another checkout (used only by background runs on a snapshot;
// the registered commands always check /repo itself).
func repoDir() string {
	if d := os.Getenv("VERIF_REPO"); d != "" {
		return d
	}
	return "/repo"
}

func lastJSON(out []byte) []byte {
	lines := bytes.Split(bytes.TrimSpace(out), []byte("\n"))
	for i := len(lines) - 1; i >= 0; i-- {
		if bytes.HasPrefix(lines[i], []byte(`{"kind"`)) {
			return lines[i]
		}
	}
	return nil
}

// softMemGiB is each worker's share of the memory the run may use for exploration state (0: no limit).
var softMemGiB float64

// tierDeadline is the wall-clock time at which running tasks of the quick tier are cut (zero: none).
var tierDeadline time.Time

type task struct {
	job   Job
	shard int
	res   result
	err   string
}

func runTask(bin string, t *task, work string) {
	j := t.job
	args := []string{"-mode", j.Mode, "-name", j.Name, "-params", j.Params, "-bound", strconv.Itoa(j.Bound),
		"-shard", fmt.Sprintf("%d/%d", t.shard, j.Shards)}
	budget := j.Budget
	if !tierDeadline.IsZero() {
		// the quick tier has an overall deadline: a task still running then is cut (and reported as not exhaustive)
		remain := time.Until(tierDeadline).Seconds()
		if remain < 10 {
			remain = 10
		}
		if budget == 0 || budget > remain {
			budget = remain
		}
	}
	if budget > 0 {
		args = append(args, "-budget", fmt.Sprint(budget))
	}
	if j.Horizon > 0 {
		args = append(args, "-horizon", strconv.Itoa(j.Horizon))
	}
	if softMemGiB > 0 && j.Mode == "sched" {
		args = append(args, "-softmem", fmt.Sprint(softMemGiB))
	}
	if j.EnvOnly {
		args = append(args, "-envonly")
	}
	cmd := exec.Command(bin, args...)
	cmd.Dir = work
	cmd.Env = append(env(), "GORACE=halt_on_error=0 log_path="+filepath.Join(work, "race"))
	var out, errb bytes.Buffer
	cmd.Stdout = &out
	cmd.Stderr = &errb
	err := cmd.Run()
	js := lastJSON(out.Bytes())
	if js == nil {
		t.err = fmt.Sprintf("worker produced no result (err=%v): %s\n%s", err, tail(out.String(), 2000), tail(errb.String(), 4000))
		return
	}
	if e := json.Unmarshal(js, &t.res); e != nil {
		t.err = "bad worker JSON: " + e.Error()
		return
	}
	if t.res.Error != "" {
		t.err = t.res.Error
	}
}

func tail(s string, n int) string {
	if len(s) > n {
		return s[len(s)-n:]
	}
	return s
}

func loadFindings() []finding {
	var fs []finding
	b, err := os.ReadFile(filepath.Join(verifDir, "known_findings.json"))
	if err != nil {
		return nil
	}
	if err := json.Unmarshal(b, &fs); err != nil {
		fmt.Fprintf(os.Stderr, "known_findings.json: %v\n", err)
		os.Exit(2)
	}
	return fs
}

func main() {
	if len(os.Args) < 3 {
		fmt.Fprintln(os.Stderr, "usage: vcheck <property> <quick|thorough> | vcheck replay <file>")
		os.Exit(2)
	}
	if os.Args[1] == "replay" {
		os.Exit(replay(os.Args[2]))
	}
	prop, tier := os.Args[1], os.Args[2]
	if t := os.Getenv("VERIF_TIER"); t == "quick" || t == "thorough" {
		tier = t
	}
	seed := 0
	if s := os.Getenv("VERIF_SEED"); s != "" {
		seed, _ = strconv.Atoi(s)
	}
	ck, ok := checks[prop]
	if !ok {
		fmt.Fprintf(os.Stderr, "unknown property %s\n", prop)
		os.Exit(2)
	}
	start := time.Now()
	work := filepath.Join(verifDir, ".work", fmt.Sprintf("%s-%d", prop, os.Getpid()))
	os.MkdirAll(work, 0o755)
	defer os.RemoveAll(work)

	jobs := ck.Jobs(tier)
	if tier == "quick" {
		d := 600.0
		if v := os.Getenv("VERIF_QUICK_DEADLINE"); v != "" {
			if f, err := strconv.ParseFloat(v, 64); err == nil {
				d = f
			}
		}
		tierDeadline = start.Add(time.Duration(d * float64(time.Second)))
	}
	needRace, needPlain := false, false
	for _, j := range jobs {
		if j.Race {
			needRace = true
		} else {
			needPlain = true
		}
	}
	var binPlain, binRace string
	var err error
	if needPlain {
		if binPlain, err = build(work, false, ""); err != nil {
			fmt.Fprintln(os.Stderr, err)
			os.RemoveAll(work)
			os.Exit(2)
		}
	}
	if needRace {
		if binRace, err = build(work, true, ""); err != nil {
			fmt.Fprintln(os.Stderr, err)
			os.RemoveAll(work)
			os.Exit(2)
		}
	}
	// tasks; the seed only permutes the order in which they are started
	var tasks []*task
	for _, j := range jobs {
		if j.Shards < 1 {
			j.Shards = 1
		}
		for s := 0; s < j.Shards; s++ {
			tasks = append(tasks, &task{job: j, shard: s})
		}
	}
	if seed != 0 {
		r := uint64(seed)*6364136223846793005 + 1442695040888963407
		for i := len(tasks) - 1; i > 0; i-- {
			r = r*6364136223846793005 + 1442695040888963407
			k := int((r >> 33) % uint64(i+1))
			tasks[i], tasks[k] = tasks[k], tasks[i]
		}
	}
	par := runtime.NumCPU()
	if par > 16 {
		par = 16
	}
	if v, err := strconv.Atoi(os.Getenv("VERIF_PAR")); err == nil && v > 0 && v < par {
		par = v // background runs that should leave cores free
	}
	if prop != "C06" { // C06 measures allocation itself and its workers are short-lived
		n := par
		if len(tasks) < n {
			n = len(tasks)
		}
		if n > 0 {
			softMemGiB = 36.0 / float64(n)
		}
	}
	sem := make(chan struct{}, par)
	var wg sync.WaitGroup
	for _, t := range tasks {
		wg.Add(1)
		sem <- struct{}{}
		go func(t *task) {
			defer wg.Done()
			defer func() { <-sem }()
			bin := binPlain
			if t.job.Race {
				bin = binRace
			}
			runTask(bin, t, work)
		}(t)
	}
	wg.Wait()

	code := report(prop, tier, seed, ck, tasks, time.Since(start).Seconds())
	os.RemoveAll(work)
	os.Exit(code)
}

type jobSummary struct {
	Name     string           `json:"scenario"`
	Params   string           `json:"params,omitempty"`
	Mode     string           `json:"mode"`
	Bound    int              `json:"preemption_bound"`
	Race     bool             `json:"race_mode,omitempty"`
	Execs    int64            `json:"executions"`
	States   int64            `json:"states,omitempty"`
	Steps    int64            `json:"steps,omitempty"`
	Distinct int              `json:"distinct_outcomes"`
	Complete bool             `json:"complete"`
	Horizon  int64            `json:"horizon_hits,omitempty"`
	Counters map[string]int64 `json:"counters,omitempty"`
	WallS    float64          `json:"cpu_s"`
}

func report(prop, tier string, seed int, ck Check, tasks []*task, wall float64) int {
	findings := loadFindings()
	var known []*regexp.Regexp
	var knownF []finding
	for _, f := range findings {
		if f.Property == prop && f.State == "known" {
			known = append(known, regexp.MustCompile(f.Match))
			knownF = append(knownF, f)
		}
	}
	sums := map[string]*jobSummary{}
	var order []string
	var execs, steps, choicePts, states, evals int64
	classes := map[string]bool{}
	distinct := 0
	complete := true
	var samples []interface{}
	type vrec struct {
		desc string
		v    interface{}
	}
	var viols []vrec
	var harnessErrs []string
	maxEn := 0
	for _, t := range tasks {
		key := t.job.Mode + "|" + t.job.Name + "|" + t.job.Params + "|" + strconv.Itoa(t.job.Bound) + "|" + fmt.Sprint(t.job.Race)
		s := sums[key]
		if s == nil {
			s = &jobSummary{Name: t.job.Name, Params: t.job.Params, Mode: t.job.Mode, Bound: t.job.Bound, Race: t.job.Race, Complete: true}
			sums[key] = s
			order = append(order, key)
		}
		if t.err != "" && prop == "C06" && strings.Contains(t.err, "exceeded 12 GiB of memory") {
			// for the allocation property the death of a worker by its memory watchdog is the symptom itself
			s.Complete = false
			complete = false
			viols = append(viols, vrec{desc: fmt.Sprintf("%s [%s] fail: the worker exceeded its memory limit while handling inputs of this class", t.job.Name, t.job.Params),
				v: map[string]interface{}{"scenario": t.job.Name, "params": t.job.Params, "shard": t.shard, "detail": t.err}})
			continue
		}
		if t.err != "" {
			harnessErrs = append(harnessErrs, fmt.Sprintf("%s %s shard %d: %s", t.job.Name, t.job.Params, t.shard, t.err))
			s.Complete = false
			complete = false
			continue
		}
		s.WallS += t.res.WallS
		if st := t.res.Stats; st != nil {
			s.Execs += st.Executions
			s.Steps += st.Steps
			s.States += st.States
			s.Horizon += st.HorizonHits
			if st.DistinctObs > s.Distinct {
				s.Distinct = st.DistinctObs
			}
			if !st.Complete || st.HorizonHits > 0 {
				s.Complete = false
				complete = false
			}
			for k, v := range st.Counters {
				if s.Counters == nil {
					s.Counters = map[string]int64{}
				}
				s.Counters[k] += v
			}
			execs += st.Executions
			steps += st.Steps
			choicePts += st.ChoicePoints
			states += st.States
			if st.MaxEnabled > maxEn {
				maxEn = st.MaxEnabled
			}
			if len(samples) < 4 && t.shard == 0 && len(st.Sample) > 0 {
				samples = append(samples, map[string]interface{}{"scenario": t.job.Name, "params": t.job.Params, "schedule": st.SampleSched, "observations": st.Sample})
			}
		}
		for _, v := range t.res.Violations {
			v.Bound = t.job.Bound
			v.Race = t.job.Race
			viols = append(viols, vrec{desc: v.Scenario + " " + v.Key, v: v})
		}
		if en := t.res.Enum; en != nil {
			s.Execs += en.Evaluations
			evals += en.Evaluations
			for _, c := range en.Classes {
				classes[t.job.Name+"/"+c] = true
			}
			if en.Incomplete != "" {
				s.Complete = false
				complete = false
			}
			for k, v := range en.Counters {
				if s.Counters == nil {
					s.Counters = map[string]int64{}
				}
				s.Counters[k] += v
			}
			for _, sm := range en.Samples {
				if len(samples) < 6 {
					samples = append(samples, map[string]interface{}{"enumeration": t.job.Name, "case": sm})
				}
			}
			for _, v := range en.Violations {
				viols = append(viols, vrec{desc: t.job.Name + " " + v.Key, v: map[string]interface{}{"scenario": t.job.Name, "params": t.job.Params, "key": v.Key, "case": v.Case, "detail": v.Detail, "mode": "enum"}})
			}
		}
	}
	var jobList []*jobSummary
	for _, k := range order {
		s := sums[k]
		distinct += s.Distinct
		jobList = append(jobList, s)
	}
	// classify violations
	os.MkdirAll(filepath.Join(verifDir, "replays"), 0o755)
	// replay files of earlier runs of this property are stale once it has been re-checked
	if old, _ := filepath.Glob(filepath.Join(verifDir, "replays", prop+"-*.json")); len(old) > 0 {
		for _, f := range old {
			os.Remove(f)
		}
	}
	code := 0
	seenDesc := map[string]bool{}
	knownHit := map[int]bool{}
	nviol := 0
	sort.SliceStable(viols, func(i, j int) bool { return viols[i].desc < viols[j].desc })
	for _, v := range viols {
		if seenDesc[v.desc] {
			continue
		}
		seenDesc[v.desc] = true
		matched := -1
		for i, re := range known {
			if re.MatchString(v.desc) {
				matched = i
				break
			}
		}
		if matched >= 0 {
			if !knownHit[matched] {
				knownHit[matched] = true
				fmt.Printf("KNOWN-FINDING: property=%s %s\n", prop, knownF[matched].What)
			}
			continue
		}
		nviol++
		path := filepath.Join(verifDir, "replays", fmt.Sprintf("%s-%d.json", prop, nviol))
		b, _ := json.MarshalIndent(v.v, "", " ")
		os.WriteFile(path, b, 0o644)
		fmt.Printf("VIOLATION property=%s replay=%s\n", prop, path)
		fmt.Printf("  %s\n", strings.ReplaceAll(tail(v.desc, 600), "\n", " "))
		code = 1
	}
	for _, e := range harnessErrs {
		fmt.Printf("HARNESS-ERROR property=%s %s\n", prop, strings.ReplaceAll(tail(e, 3000), "\n", "\n   "))
		if code == 0 {
			code = 2
		}
	}
	// evidence
	cov := map[string]interface{}{
		"rule":       ck.Rule,
		"samples":    samples,
		"exhaustive": complete,
		"jobs":       jobList,
	}
	if evals > 0 || ck.Level != "model_checking" {
		cov["evaluations"] = evals + execs
		cov["distinct_nontrivial"] = len(classes) + distinct
	}
	if execs > 0 {
		if states == 0 {
			states = choicePts
		}
		cov["states"] = states
		cov["transitions"] = steps
		cov["traces_validated_against_impl"] = execs
		cov["executions"] = execs
		cov["scheduling_choice_points"] = choicePts
		cov["max_enabled_threads"] = maxEn
		cov["distinct_outcomes_summed_over_jobs"] = distinct
		if _, ok := cov["evaluations"]; !ok {
			cov["evaluations"] = execs
			cov["distinct_nontrivial"] = distinct
		}
	}
	if len(samples) == 0 {
		cov["samples"] = []interface{}{"(no sample recorded)"}
	}
	ev := map[string]interface{}{
		"property_id": prop,
		"tier":        tier,
		"seed":        seed,
		"level":       ck.Level,
		"coverage":    cov,
		"assumptions": ck.Assumptions,
		"wall_s":      wall,
		"violations":  nviol,
	}
	if len(knownHit) > 0 {
		ev["known_findings_reproduced"] = len(knownHit)
	}
	os.MkdirAll(filepath.Join(verifDir, "evidence"), 0o755)
	b, _ := json.MarshalIndent(ev, "", " ")
	os.WriteFile(filepath.Join(verifDir, "evidence", prop+".json"), b, 0o644)
	fmt.Printf("%s %s: %d executions, %d enum cases, %d jobs, complete=%v, violations=%d, known=%d, wall=%.1fs\n", prop, tier, execs, evals, len(jobList), complete, nviol, len(knownHit), wall)
	return code
}

func replay(path string) int {
	b, err := os.ReadFile(path)
	if err != nil {
		fmt.Fprintln(os.Stderr, err)
		return 2
	}
	var v violation
	if err := json.Unmarshal(b, &v); err != nil {
		fmt.Fprintln(os.Stderr, err)
		return 2
	}
	work := filepath.Join(verifDir, ".work", fmt.Sprintf("replay-%d", os.Getpid()))
	os.MkdirAll(work, 0o755)
	defer os.RemoveAll(work)
	bin, err := build(work, v.Race, "")
	if err != nil {
		fmt.Fprintln(os.Stderr, err)
		return 2
	}
	var cs []string
	for _, c := range v.Choices {
		cs = append(cs, strconv.Itoa(c))
	}
	cmd := exec.Command(bin, "-mode", "replay", "-name", v.Scenario, "-params", v.Params, "-choices", strings.Join(cs, ","))
	cmd.Env = env()
	out, _ := cmd.Output()
	js := lastJSON(out)
	var r result
	json.Unmarshal(js, &r)
	if len(r.Violations) > 0 {
		fmt.Printf("replay reproduces: %s\n%s\nobservations: %v\n", r.Violations[0].Verdict, r.Violations[0].Detail, r.Violations[0].Obs)
		return 1
	}
	fmt.Printf("replay passes on the current tree (observations: %v)\n", r.Stats.Sample)
	return 0
}
