// vinstr rewrites the current sources of /repo so that every synchronisation
// operation goes through the model-checking shims, and emits a `go build
// -overlay` file. /repo itself is never modified; the rewrite is a function of
// the current text, so an edit to /repo is carried into the instrumented build.
package main

import (
	"bytes"
	"encoding/json"
	"flag"
	"fmt"
	"go/ast"
	"go/format"
	"go/importer"
	"go/parser"
	"go/token"
	"go/types"
	"io"
	"os"
	"os/exec"
	"path/filepath"
	"sort"
	"strconv"
	"strings"
)

const modPath = "github.com/henrylee2cn/erpc/v6"

// packages (relative to the repo root) that are instrumented
var pkgs = []string{
	".", "socket", "utils", "xfer", "xfer/gzip", "xfer/md5", "codec",
	"proto/rawproto", "proto/jsonproto", "proto/pbproto", "proto/httproto", "proto/thriftproto",
	"plugin/auth", "plugin/secure", "plugin/overloader", "plugin/proxy", "plugin/ignorecase",
	"mixer/multiclient",
}

// files left untouched (real primitives): the logger owns a private goroutine and pool
var skipFiles = map[string]bool{"log.go": true}

// files whose sync/atomic calls stay real (pure statistics, would only add noise points)
var keepAtomic = map[string]bool{"utils/bytebuffer.go": true}

type listPkg struct {
	Dir        string
	ImportPath string
	Export     string
	GoFiles    []string
	Standard   bool
}

func fatalf(f string, a ...interface{}) {
	fmt.Fprintf(os.Stderr, "vinstr: "+f+"\n", a...)
	os.Exit(2)
}

func main() {
	repo := flag.String("repo", "/repo", "repository root")
	out := flag.String("out", "", "output directory for rewritten files")
	overlayDir := flag.String("overlay-src", "", "directory with quic_stub.go.txt and erpc_export.go.txt")
	keyRoot := flag.String("keyroot", "", "directory the build actually compiles (overlay keys); default: -repo. If it differs, every source file of -repo is overlaid onto it")
	yields := flag.String("yield", "", "comma separated file:line list (relative to repo) where an extra yield is inserted")
	flag.Parse()
	if *out == "" {
		fatalf("-out required")
	}
	os.MkdirAll(*out, 0o755)
	if *keyRoot == "" {
		*keyRoot = *repo
	}
	rekey := func(path string) string {
		if *keyRoot == *repo {
			return path
		}
		rel, err := filepath.Rel(*repo, path)
		if err != nil {
			fatalf("%v", err)
		}
		return filepath.Join(*keyRoot, rel)
	}

	// 1. export data of all dependencies (for type checking)
	args := []string{"list", "-export", "-deps", "-json=Dir,ImportPath,Export,GoFiles,Standard"}
	for _, p := range pkgs {
		args = append(args, "./"+p)
	}
	cmd := exec.Command("go", args...)
	cmd.Dir = *repo
	cmd.Stderr = os.Stderr
	data, err := cmd.Output()
	if err != nil {
		fatalf("go list failed: %v", err)
	}
	exports := map[string]string{}
	byPath := map[string]*listPkg{}
	dec := json.NewDecoder(bytes.NewReader(data))
	for {
		var lp listPkg
		if err := dec.Decode(&lp); err == io.EOF {
			break
		} else if err != nil {
			fatalf("decode go list: %v", err)
		}
		l := lp
		exports[lp.ImportPath] = lp.Export
		byPath[lp.ImportPath] = &l
	}
	fset := token.NewFileSet()
	imp := importer.ForCompiler(fset, "gc", func(path string) (io.ReadCloser, error) {
		e := exports[path]
		if e == "" {
			return nil, fmt.Errorf("no export data for %s", path)
		}
		return os.Open(e)
	})

	extraYield := map[string]bool{}
	for _, y := range strings.Split(*yields, ",") {
		if y != "" {
			extraYield[y] = true
		}
	}

	overlay := map[string]string{}
	nfiles, nrewrites := 0, 0
	for _, rel := range pkgs {
		ip := modPath
		if rel != "." {
			ip += "/" + rel
		}
		lp := byPath[ip]
		if lp == nil {
			fatalf("package %s not listed", ip)
		}
		var files []*ast.File
		var names []string
		for _, f := range lp.GoFiles {
			af, err := parser.ParseFile(fset, filepath.Join(lp.Dir, f), nil, parser.ParseComments)
			if err != nil {
				fatalf("parse: %v", err)
			}
			files = append(files, af)
			names = append(names, f)
		}
		info := &types.Info{Types: map[ast.Expr]types.TypeAndValue{}, Uses: map[*ast.Ident]types.Object{}, Defs: map[*ast.Ident]types.Object{}, Implicits: map[ast.Node]types.Object{}}
		conf := types.Config{Importer: imp, Error: func(err error) {}}
		if _, err := conf.Check(ip, fset, files, info); err != nil {
			fatalf("type check %s: %v", ip, err)
		}
		for i, af := range files {
			relFile := names[i]
			if rel != "." {
				relFile = rel + "/" + names[i]
			}
			// log.go keeps its own synchronisation (no scheduling points inside the logger); only its os.Exit calls
			// (Fatalf) are redirected so that the harness can observe them
			r := &rewriter{fset: fset, info: info, file: af, rel: relFile, keepAtomic: keepAtomic[relFile], yields: extraYield, exitOnly: rel == "." && skipFiles[names[i]]}
			if r.run() {
				var buf bytes.Buffer
				if err := format.Node(&buf, fset, af); err != nil {
					fatalf("print %s: %v", relFile, err)
				}
				dst := filepath.Join(*out, strings.ReplaceAll(relFile, "/", "__"))
				if err := os.WriteFile(dst, buf.Bytes(), 0o644); err != nil {
					fatalf("write: %v", err)
				}
				overlay[rekey(filepath.Join(lp.Dir, names[i]))] = dst
				nfiles++
				nrewrites += r.count
			}
		}
	}
	for y := range extraYield {
		if !yieldDone[y] {
			fatalf("extra yield %s: no statement starts at that line", y)
		}
	}
	// 2. static overlay files
	if *overlayDir != "" {
		stub, err := os.ReadFile(filepath.Join(*overlayDir, "quic_stub.go.txt"))
		if err != nil {
			fatalf("%v", err)
		}
		dst := filepath.Join(*out, "quic__stub.go")
		os.WriteFile(dst, stub, 0o644)
		ents, _ := os.ReadDir(filepath.Join(*repo, "quic"))
		first := true
		for _, e := range ents {
			if strings.HasSuffix(e.Name(), ".go") && !strings.HasSuffix(e.Name(), "_test.go") {
				if first {
					overlay[rekey(filepath.Join(*repo, "quic", e.Name()))] = dst
					first = false
				} else {
					overlay[rekey(filepath.Join(*repo, "quic", e.Name()))] = "" // deleted
				}
			}
		}
		exps, _ := os.ReadDir(filepath.Join(*overlayDir, "exports"))
		for _, e := range exps {
			if !strings.HasSuffix(e.Name(), ".go.txt") {
				continue
			}
			exp, err := os.ReadFile(filepath.Join(*overlayDir, "exports", e.Name()))
			if err != nil {
				fatalf("%v", err)
			}
			rel := strings.TrimSuffix(e.Name(), ".go.txt")
			dir := *repo
			if rel != "root" {
				dir = filepath.Join(*repo, strings.ReplaceAll(rel, "__", "/"))
			}
			dst := filepath.Join(*out, "zz_verif_export__"+rel+".go")
			os.WriteFile(dst, exp, 0o644)
			overlay[rekey(filepath.Join(dir, "zz_verif_export.go"))] = dst
		}
	}
	if *keyRoot != *repo {
		// compile the snapshot, not the key root: overlay every remaining source file verbatim
		filepath.Walk(*repo, func(path string, info os.FileInfo, err error) error {
			if err != nil {
				return nil
			}
			if info.IsDir() {
				if n := info.Name(); n == ".git" || n == "examples" {
					return filepath.SkipDir
				}
				return nil
			}
			if strings.HasSuffix(path, ".go") && !strings.HasSuffix(path, "_test.go") {
				if _, ok := overlay[rekey(path)]; !ok {
					overlay[rekey(path)] = path
				}
			}
			return nil
		})
		// files that exist only in the key root must disappear
		filepath.Walk(*keyRoot, func(path string, info os.FileInfo, err error) error {
			if err != nil {
				return nil
			}
			if info.IsDir() {
				if n := info.Name(); n == ".git" || n == "examples" {
					return filepath.SkipDir
				}
				return nil
			}
			if strings.HasSuffix(path, ".go") && !strings.HasSuffix(path, "_test.go") {
				if _, ok := overlay[path]; !ok {
					overlay[path] = ""
				}
			}
			return nil
		})
	}
	ov, _ := json.MarshalIndent(map[string]interface{}{"Replace": overlay}, "", " ")
	if err := os.WriteFile(filepath.Join(*out, "overlay.json"), ov, 0o644); err != nil {
		fatalf("%v", err)
	}
	fmt.Printf("vinstr: %d files rewritten, %d rewrites\n", nfiles, nrewrites)
}

var yieldDone = map[string]bool{}

type rewriter struct {
	fset       *token.FileSet
	info       *types.Info
	file       *ast.File
	rel        string
	keepAtomic bool
	exitOnly   bool // only redirect os.Exit (files that otherwise stay uninstrumented)
	yields     map[string]bool
	count      int
	needVsync  bool
	needPkgs   map[string]string // alias -> path
	generated  map[ast.Stmt]bool
}

func (r *rewriter) pos(n ast.Node) string { return r.fset.Position(n.Pos()).String() }

func (r *rewriter) need(alias, path string) {
	if r.needPkgs == nil {
		r.needPkgs = map[string]string{}
	}
	r.needPkgs[alias] = path
}

func call(pkg, fn string, args ...ast.Expr) *ast.CallExpr {
	return &ast.CallExpr{Fun: &ast.SelectorExpr{X: ast.NewIdent(pkg), Sel: ast.NewIdent(fn)}, Args: args}
}

func (r *rewriter) vsync(fn string, args ...ast.Expr) ast.Stmt {
	r.need("vsync", "verif/shim/vsync")
	return &ast.ExprStmt{X: call("vsync", fn, args...)}
}

// pure reports whether evaluating e twice is harmless (identifier/selector/no-arg call chains).
func pure(e ast.Expr) bool {
	switch v := e.(type) {
	case *ast.Ident:
		return true
	case *ast.SelectorExpr:
		return pure(v.X)
	case *ast.CallExpr:
		return len(v.Args) == 0 && pure(v.Fun)
	case *ast.ParenExpr:
		return pure(v.X)
	case *ast.StarExpr:
		return pure(v.X)
	}
	return false
}

func (r *rewriter) isChan(e ast.Expr) bool {
	tv, ok := r.info.Types[e]
	if !ok || tv.Type == nil {
		return false
	}
	_, is := tv.Type.Underlying().(*types.Chan)
	return is
}

func (r *rewriter) pkgOf(id *ast.Ident) string {
	if pn, ok := r.info.Uses[id].(*types.PkgName); ok {
		return pn.Imported().Path()
	}
	return ""
}

var selectorMap = map[string][2]string{
	"os.Exit":                   {"vsync", "Exit"},
	"time.Sleep":                {"vtime", "Sleep"},
	"time.NewTicker":            {"vtime", "NewTicker"},
	"time.Ticker":               {"vtime", "Ticker"},
	"net.Dialer":                {"vnet", "Dialer"},
	"crypto/tls.DialWithDialer": {"vnet", "TLSDialWithDialer"},
	"github.com/henrylee2cn/goutil.AtomicMap": {"vmap", "AtomicMap"},
	"github.com/henrylee2cn/goutil.RwMap":     {"vmap", "RwMap"},
}

var shimPaths = map[string]string{"vtime": "verif/shim/vtime", "vnet": "verif/shim/vnet", "vmap": "verif/shim/vmap", "vsync": "verif/shim/vsync"}

func (r *rewriter) run() bool {
	// a. imports
	for _, is := range r.file.Imports {
		if r.exitOnly {
			break
		}
		p, _ := strconv.Unquote(is.Path.Value)
		var np, name string
		switch p {
		case "sync":
			np, name = "verif/shim/vsync", "sync"
		case "sync/atomic":
			if r.keepAtomic {
				continue
			}
			np, name = "verif/shim/vatomic", "atomic"
		case "github.com/henrylee2cn/goutil/pool":
			np, name = "verif/shim/vpool", "pool"
		default:
			continue
		}
		is.Path.Value = strconv.Quote(np)
		if is.Name == nil {
			is.Name = ast.NewIdent(name)
		}
		r.count++
	}
	// h. selector replacements
	pkgUses := map[string]int{} // import path -> remaining uses of its package name
	ast.Inspect(r.file, func(n ast.Node) bool {
		if id, ok := n.(*ast.Ident); ok {
			if p := r.pkgOf(id); p != "" {
				pkgUses[p]++
			}
		}
		return true
	})
	ast.Inspect(r.file, func(n ast.Node) bool {
		se, ok := n.(*ast.SelectorExpr)
		if !ok {
			return true
		}
		id, ok := se.X.(*ast.Ident)
		if !ok {
			return true
		}
		p := r.pkgOf(id)
		if p == "" {
			return true
		}
		if to, ok := selectorMap[p+"."+se.Sel.Name]; ok && (!r.exitOnly || p == "os") {
			pkgUses[p]--
			se.X = ast.NewIdent(to[0])
			se.Sel = ast.NewIdent(to[1])
			r.need(to[0], shimPaths[to[0]])
			r.count++
		}
		return true
	})
	// statements
	if !r.exitOnly {
		r.walkStmtLists(r.file)
	}
	// imports that became unused turn into blank imports; add shim imports
	for _, is := range r.file.Imports {
		p, _ := strconv.Unquote(is.Path.Value)
		if n, ok := pkgUses[p]; ok && n == 0 {
			is.Name = ast.NewIdent("_")
		}
	}
	if len(r.needPkgs) > 0 {
		var aliases []string
		for a := range r.needPkgs {
			aliases = append(aliases, a)
		}
		sort.Strings(aliases)
		var specs []ast.Spec
		for _, a := range aliases {
			specs = append(specs, &ast.ImportSpec{Name: ast.NewIdent(a), Path: &ast.BasicLit{Kind: token.STRING, Value: strconv.Quote(r.needPkgs[a])}})
		}
		gd := &ast.GenDecl{Tok: token.IMPORT, Lparen: 1, Specs: specs}
		// insert after the last import decl
		idx := 0
		for i, d := range r.file.Decls {
			if g, ok := d.(*ast.GenDecl); ok && g.Tok == token.IMPORT {
				idx = i + 1
			}
		}
		decls := append([]ast.Decl{}, r.file.Decls[:idx]...)
		decls = append(decls, gd)
		decls = append(decls, r.file.Decls[idx:]...)
		r.file.Decls = decls
	}
	return r.count > 0
}

// walkStmtLists visits every statement list and rewrites statements in place.
func (r *rewriter) walkStmtLists(root ast.Node) {
	ast.Inspect(root, func(n ast.Node) bool {
		switch v := n.(type) {
		case *ast.BlockStmt:
			v.List = r.rewriteList(v.List)
		case *ast.CaseClause:
			v.Body = r.rewriteList(v.Body)
		case *ast.CommClause:
			v.Body = r.rewriteList(v.Body)
		case *ast.SelectStmt:
			r.checkSelect(v)
		case *ast.LabeledStmt:
			if _, ok := v.Stmt.(*ast.RangeStmt); ok && r.isChanRange(v.Stmt.(*ast.RangeStmt)) {
				fatalf("%s: labeled range over channel is not supported", r.pos(v))
			}
		}
		return true
	})
}

func (r *rewriter) isChanRange(rs *ast.RangeStmt) bool { return r.isChan(rs.X) }

func (r *rewriter) checkSelect(s *ast.SelectStmt) {
	hasDefault := false
	for _, c := range s.Body.List {
		if c.(*ast.CommClause).Comm == nil {
			hasDefault = true
		}
	}
	if !hasDefault {
		fatalf("%s: blocking select is not supported by the instrumenter", r.pos(s))
	}
}

// ownArrows collects receive expressions that belong to stmt itself (not to nested blocks or function literals).
func (r *rewriter) ownArrows(n ast.Node, out *[]ast.Expr) {
	ast.Inspect(n, func(m ast.Node) bool {
		switch v := m.(type) {
		case *ast.BlockStmt, *ast.FuncLit, *ast.SelectStmt, *ast.CaseClause, *ast.CommClause:
			if m != n {
				return false
			}
		case *ast.UnaryExpr:
			if v.Op == token.ARROW {
				*out = append(*out, v.X)
			}
		}
		return true
	})
}

func (r *rewriter) rewriteList(list []ast.Stmt) []ast.Stmt {
	var out []ast.Stmt
	for _, s := range list {
		if r.yields != nil {
			p := r.fset.Position(s.Pos())
			key := r.rel + ":" + strconv.Itoa(p.Line)
			if r.yields[key] && !yieldDone[key+"#"+strconv.Itoa(p.Column)] {
				yieldDone[key] = true
				yieldDone[key+"#"+strconv.Itoa(p.Column)] = true
				out = append(out, r.vsync("Yield"))
				r.count++
			}
		}
		out = append(out, r.rewriteStmt(s)...)
	}
	return out
}

func (r *rewriter) rewriteStmt(s ast.Stmt) []ast.Stmt {
	if r.generated[s] {
		return []ast.Stmt{s}
	}
	switch v := s.(type) {
	case *ast.GoStmt:
		r.count++
		return []ast.Stmt{r.rewriteGo(v)}
	case *ast.SendStmt:
		if !pure(v.Chan) {
			fatalf("%s: send on a channel expression with side effects", r.pos(v))
		}
		var pre []ast.Stmt
		var arrows []ast.Expr
		r.ownArrows(v.Value, &arrows)
		for _, a := range arrows {
			pre = append(pre, r.awaitRecv(a))
		}
		r.count++
		return append(pre, r.vsync("AwaitSend", v.Chan), v)
	case *ast.ExprStmt:
		if c, ok := v.X.(*ast.CallExpr); ok {
			if id, ok := c.Fun.(*ast.Ident); ok && id.Name == "close" && len(c.Args) == 1 {
				if _, isBuiltin := r.info.Uses[id].(*types.Builtin); isBuiltin {
					if !pure(c.Args[0]) {
						fatalf("%s: close of a channel expression with side effects", r.pos(v))
					}
					r.count++
					return []ast.Stmt{r.vsync("BeforeClose", c.Args[0]), v, r.vsync("Closed", c.Args[0])}
				}
			}
		}
		return r.withAwaits(v, v)
	case *ast.AssignStmt, *ast.ReturnStmt, *ast.DeclStmt, *ast.IncDecStmt, *ast.DeferStmt:
		return r.withAwaits(s, s)
	case *ast.IfStmt:
		var arrows []ast.Expr
		if v.Init != nil {
			r.ownArrows(v.Init, &arrows)
		}
		r.ownArrows(v.Cond, &arrows)
		var pre []ast.Stmt
		for _, a := range arrows {
			pre = append(pre, r.awaitRecv(a))
		}
		return append(pre, s)
	case *ast.ForStmt:
		var arrows []ast.Expr
		if v.Init != nil {
			r.ownArrows(v.Init, &arrows)
		}
		if v.Cond != nil {
			r.ownArrows(v.Cond, &arrows)
		}
		if v.Post != nil {
			r.ownArrows(v.Post, &arrows)
		}
		if len(arrows) > 0 {
			fatalf("%s: channel receive in a for clause is not supported", r.pos(v))
		}
		return []ast.Stmt{s}
	case *ast.SwitchStmt:
		var arrows []ast.Expr
		if v.Init != nil {
			r.ownArrows(v.Init, &arrows)
		}
		if v.Tag != nil {
			r.ownArrows(v.Tag, &arrows)
		}
		var pre []ast.Stmt
		for _, a := range arrows {
			pre = append(pre, r.awaitRecv(a))
		}
		return append(pre, s)
	case *ast.RangeStmt:
		if r.isChanRange(v) {
			r.count++
			return []ast.Stmt{r.rewriteChanRange(v)}
		}
		var arrows []ast.Expr
		r.ownArrows(v.X, &arrows)
		var pre []ast.Stmt
		for _, a := range arrows {
			pre = append(pre, r.awaitRecv(a))
		}
		return append(pre, s)
	case *ast.SelectStmt:
		// non-blocking select (checked elsewhere): the poll is a visible operation
		r.count++
		var chans []ast.Expr
		for _, c := range v.Body.List {
			var ch ast.Expr
			switch cm := c.(*ast.CommClause).Comm.(type) {
			case *ast.ExprStmt:
				if u, ok := cm.X.(*ast.UnaryExpr); ok && u.Op == token.ARROW {
					ch = u.X
				}
			case *ast.AssignStmt:
				if len(cm.Rhs) == 1 {
					if u, ok := cm.Rhs[0].(*ast.UnaryExpr); ok && u.Op == token.ARROW {
						ch = u.X
					}
				}
			case *ast.SendStmt:
				ch = cm.Chan
			}
			if ch != nil {
				if !pure(ch) {
					fatalf("%s: select on a channel expression with side effects", r.pos(ch))
				}
				chans = append(chans, ch)
			}
		}
		return []ast.Stmt{r.vsync("SelectPoint", chans...), s}
	case *ast.LabeledStmt:
		inner := r.rewriteStmt(v.Stmt)
		if len(inner) == 1 {
			v.Stmt = inner[0]
			return []ast.Stmt{v}
		}
		// keep the label on the last statement (the original one)
		v.Stmt = inner[len(inner)-1]
		return append(inner[:len(inner)-1], v)
	}
	return []ast.Stmt{s}
}

func (r *rewriter) awaitRecv(ch ast.Expr) ast.Stmt {
	if !pure(ch) {
		fatalf("%s: receive from a channel expression with side effects", r.pos(ch))
	}
	r.count++
	return r.vsync("AwaitRecv", ch)
}

func (r *rewriter) withAwaits(scan ast.Node, s ast.Stmt) []ast.Stmt {
	var arrows []ast.Expr
	r.ownArrows(scan, &arrows)
	var pre []ast.Stmt
	for _, a := range arrows {
		pre = append(pre, r.awaitRecv(a))
	}
	return append(pre, s)
}

func (r *rewriter) rewriteGo(g *ast.GoStmt) ast.Stmt {
	r.need("vsync", "verif/shim/vsync")
	c := g.Call
	if fl, ok := c.Fun.(*ast.FuncLit); ok && len(c.Args) == 0 {
		return &ast.ExprStmt{X: call("vsync", "Go", fl)}
	}
	// { vf := F; va0 := a0; ...; vsync.Go(func(){ vf(va0, ...) }) }
	var stmts []ast.Stmt
	fn := ast.NewIdent("vgoFn")
	stmts = append(stmts, &ast.AssignStmt{Lhs: []ast.Expr{fn}, Tok: token.DEFINE, Rhs: []ast.Expr{c.Fun}})
	var args []ast.Expr
	for i, a := range c.Args {
		id := ast.NewIdent("vgoArg" + strconv.Itoa(i))
		stmts = append(stmts, &ast.AssignStmt{Lhs: []ast.Expr{id}, Tok: token.DEFINE, Rhs: []ast.Expr{a}})
		args = append(args, id)
	}
	inner := &ast.CallExpr{Fun: fn, Args: args, Ellipsis: c.Ellipsis}
	lit := &ast.FuncLit{Type: &ast.FuncType{Params: &ast.FieldList{}}, Body: &ast.BlockStmt{List: []ast.Stmt{&ast.ExprStmt{X: inner}}}}
	stmts = append(stmts, &ast.ExprStmt{X: call("vsync", "Go", lit)})
	return &ast.BlockStmt{List: stmts}
}

func (r *rewriter) rewriteChanRange(rs *ast.RangeStmt) ast.Stmt {
	r.need("vsync", "verif/shim/vsync")
	ch := ast.NewIdent("vrangeCh")
	okId := ast.NewIdent("vrangeOk")
	var lhs0 ast.Expr = ast.NewIdent("_")
	tok := token.DEFINE
	if rs.Key != nil {
		lhs0 = rs.Key
		if rs.Tok == token.ASSIGN {
			// v = range ch: need a separate ok variable declared first
			tok = token.ASSIGN
		}
	}
	var recv ast.Stmt
	if tok == token.ASSIGN {
		recv = &ast.BlockStmt{List: []ast.Stmt{}}
		fatalf("%s: `for v = range ch` is not supported", r.pos(rs))
	} else {
		recv = &ast.AssignStmt{Lhs: []ast.Expr{lhs0, okId}, Tok: token.DEFINE, Rhs: []ast.Expr{&ast.UnaryExpr{Op: token.ARROW, X: ch}}}
	}
	if r.generated == nil {
		r.generated = map[ast.Stmt]bool{}
	}
	r.generated[recv] = true
	body := []ast.Stmt{
		&ast.ExprStmt{X: call("vsync", "AwaitRecv", ch)},
		recv,
		&ast.IfStmt{Cond: &ast.UnaryExpr{Op: token.NOT, X: okId}, Body: &ast.BlockStmt{List: []ast.Stmt{&ast.BranchStmt{Tok: token.BREAK}}}},
	}
	body = append(body, rs.Body.List...)
	return &ast.BlockStmt{List: []ast.Stmt{
		&ast.AssignStmt{Lhs: []ast.Expr{ch}, Tok: token.DEFINE, Rhs: []ast.Expr{rs.X}},
		&ast.ForStmt{Body: &ast.BlockStmt{List: body}},
	}}
}
