// worker runs one exploration job (or a replay) inside an instrumented build
// and prints a JSON result on stdout.
package main

import (
	"encoding/json"
	"flag"
	"fmt"
	"os"
	"runtime"
	"runtime/debug"
	"sort"
	"strconv"
	"strings"
	"sync/atomic"
	"time"

	"verif/scen"
	"verif/shim/vsched"
)

// Result is the JSON printed by a worker.
type Result struct {
	Kind       string             `json:"kind"`
	Name       string             `json:"name"`
	Params     string             `json:"params"`
	Shard      int                `json:"shard"`
	NShards    int                `json:"nshards"`
	Stats      *vsched.Stats      `json:"stats,omitempty"`
	Violations []vsched.Violation `json:"violations,omitempty"`
	Enum       *EnumResult        `json:"enum,omitempty"`
	WallS      float64            `json:"wall_s"`
	Error      string             `json:"error,omitempty"`
}

// EnumResult is the result of an enumeration job.
type EnumResult struct {
	Evaluations int64                `json:"evaluations"`
	Classes     []string             `json:"classes"`
	Samples     []string             `json:"samples"`
	Violations  []scen.EnumViolation `json:"violations,omitempty"`
	Counters    map[string]int64     `json:"counters,omitempty"`
	Incomplete  string               `json:"incomplete,omitempty"`
}

func main() {
	mode := flag.String("mode", "sched", "sched | enum | replay | list")
	name := flag.String("name", "", "scenario name")
	params := flag.String("params", "", "k=v,k=v")
	bound := flag.Int("bound", 1, "preemption bound (-1 = unbounded)")
	shard := flag.String("shard", "0/1", "i/n")
	budget := flag.Float64("budget", 0, "seconds (0 = none)")
	horizon := flag.Int("horizon", 20000, "max steps per execution")
	choices := flag.String("choices", "", "comma separated choice list (replay)")
	nocache := flag.Bool("nocache", false, "disable happens-before state caching")
	envonly := flag.Bool("envonly", false, "branch on environment choices only (default schedule)")
	softmem := flag.Float64("softmem", 0, "GiB of memory after which the exploration stops gracefully (0 = never)")
	flag.Parse()
	runtime.GOMAXPROCS(1)
	debug.SetGCPercent(400)
	// memory watchdog: a defect that makes the code under test allocate without bound must not take the sandbox down
	// (RLIMIT_AS is not usable: the Go runtime spins when its address-space reservations fail)
	go func() {
		var ms runtime.MemStats
		for {
			time.Sleep(250 * time.Millisecond)
			runtime.ReadMemStats(&ms)
			if *softmem > 0 && ms.Sys > uint64(*softmem*float64(1<<30)) {
				// the explorer's state cache has grown to this worker's share of the machine: stop exploring and
				// report what was covered (incomplete) instead of risking the whole run
				atomic.StoreInt32(&vsched.StopRequested, 1)
			}
			if ms.Sys > 12<<30 {
				fmt.Fprintf(os.Stdout, "{\"kind\":\"%s\",\"name\":\"%s\",\"params\":\"%s\",\"error\":\"worker exceeded 12 GiB of memory and was stopped by its watchdog\"}\n", *mode, *name, *params)
				os.Exit(3)
			}
		}
	}()

	var sh, nsh int
	fmt.Sscanf(*shard, "%d/%d", &sh, &nsh)
	if nsh == 0 {
		nsh = 1
	}
	start := time.Now()
	res := Result{Kind: *mode, Name: *name, Params: *params, Shard: sh, NShards: nsh}
	defer func() {
		res.WallS = time.Since(start).Seconds()
		b, _ := json.Marshal(res)
		os.Stdout.Write(append(b, '\n'))
	}()
	p := scen.ParseParams(*params)
	switch *mode {
	case "list":
		var names []string
		for k := range scen.Sched {
			names = append(names, "sched:"+k)
		}
		for k := range scen.Enum {
			names = append(names, "enum:"+k)
		}
		sort.Strings(names)
		res.Error = strings.Join(names, " ")
	case "sched":
		f := scen.Sched[*name]
		if f == nil {
			res.Error = "unknown scenario " + *name
			return
		}
		e := &vsched.Explorer{Name: *name, Params: p.String(), Body: f(p), Bound: *bound, Horizon: *horizon, Shard: sh, NShards: nsh, NoCache: *nocache, EnvOnly: *envonly}
		if *budget > 0 {
			e.Deadline = start.Add(time.Duration(*budget * float64(time.Second)))
		}
		installRace(e)
		if os.Getenv("VERIF_TRACE_ALL") != "" {
			vsched.Trace = func(x *vsched.Exec, l string) { fmt.Fprintln(os.Stderr, l) }
		}
		if os.Getenv("VERIF_DEBUG_DIVERGE") != "" {
			vsched.Trace = func(x *vsched.Exec, l string) { x.TraceLog = append(x.TraceLog, l) }
			vsched.DebugDiverge = func(a, b *vsched.Exec, prefix []int) {
				os.WriteFile("/tmp/div_parent.txt", []byte(strings.Join(a.TraceLog, "\n")), 0o644)
				os.WriteFile("/tmp/div_child.txt", []byte(strings.Join(b.TraceLog, "\n")+"\n"+b.Detail), 0o644)
				fmt.Fprintln(os.Stderr, "diverged; prefix", prefix)
				os.Exit(3)
			}
		}
		e.Explore()
		res.Stats = &e.Stats
		res.Violations = e.Violations
	case "replay":
		f := scen.Sched[*name]
		if f == nil {
			res.Error = "unknown scenario " + *name
			return
		}
		var ch []int
		for _, s := range strings.Split(*choices, ",") {
			if s == "" {
				continue
			}
			n, _ := strconv.Atoi(s)
			ch = append(ch, n)
		}
		if os.Getenv("VERIF_TRACE") != "" {
			vsched.Trace = func(x *vsched.Exec, l string) { fmt.Fprintln(os.Stderr, l) }
		}
		if os.Getenv("VERIF_HIST") != "" {
			vsched.KindHist = map[string]int{}
		}
		x := vsched.Run(ch, *horizon, f(p))
		if vsched.KindHist != nil {
			for k, v := range vsched.KindHist {
				fmt.Fprintf(os.Stderr, "%5d %s\n", v, k)
			}
		}
		st := &vsched.Stats{Executions: 1, Steps: int64(x.Steps), Sample: x.Obs}
		res.Stats = st
		if x.Verdict != "" {
			res.Violations = []vsched.Violation{{Scenario: *name, Params: p.String(), Verdict: x.Verdict, Detail: x.Detail, Choices: ch, Obs: x.Obs}}
		}
	case "enum":
		f := scen.Enum[*name]
		if f == nil {
			res.Error = "unknown enumeration " + *name
			return
		}
		c := &scen.EnumCtx{P: p, Shard: sh, NShards: nsh}
		func() {
			defer func() {
				if r := recover(); r != nil {
					c.Fail("harness-panic", "", fmt.Sprintf("enumeration panicked: %v\n%s", r, debug.Stack()))
				}
			}()
			f(c)
		}()
		er := &EnumResult{Evaluations: c.Evaluations, Samples: c.Samples, Violations: c.Violations, Counters: c.Counters, Incomplete: c.Incomplete}
		for k := range c.Nontrivial {
			er.Classes = append(er.Classes, k)
		}
		sort.Strings(er.Classes)
		res.Enum = er
	default:
		res.Error = "unknown mode"
	}
}
