//go:build !race

package main

import "verif/shim/vsched"

func installRace(e *vsched.Explorer) {}
