//go:build race

package main

import "verif/shim/vsched"

func installRaceImpl(e *vsched.Explorer) {}
