//go:build race

package main

import (
	"fmt"
	"os"
	"path/filepath"
	"regexp"
	"runtime"
	"sort"
	"strings"

	"verif/shim/vsched"
)

var (
	raceLogOff  int64
	raceCount   int
	raceAtAbort int
	raceOffAt   int64
)

func raceLogPath() string {
	for _, kv := range strings.Fields(os.Getenv("GORACE")) {
		if strings.HasPrefix(kv, "log_path=") {
			return fmt.Sprintf("%s.%d", strings.TrimPrefix(kv, "log_path="), os.Getpid())
		}
	}
	return ""
}

func logSize() int64 {
	if p := raceLogPath(); p != "" {
		if st, err := os.Stat(p); err == nil {
			return st.Size()
		}
	}
	return 0
}

var frameRe = regexp.MustCompile(`(?m)^  ([^\s(]+)\(.*\n\s+([^\s]+):(\d+)`)

// raceKey normalises a race report: the first frames of the two conflicting accesses (function + file:line).
func raceKey(report string) string {
	var tops []string
	for _, part := range regexp.MustCompile(`(?m)^(Read|Write|Previous read|Previous write|Previous atomic \w+|Atomic \w+) at `).Split(report, -1)[1:] {
		m := frameRe.FindStringSubmatch(part)
		if m != nil {
			tops = append(tops, m[1]+" "+filepath.Base(filepath.Dir(m[2]))+"/"+filepath.Base(m[2])+":"+m[3])
		}
		if len(tops) == 2 {
			break
		}
	}
	sort.Strings(tops)
	return strings.Join(tops, " <-> ")
}

// installRaceImpl makes every execution a race check: reports that appear while the
// execution is faithful (before teardown) are violations of that schedule.
func installRaceImpl(e *vsched.Explorer) {
	raceCount = runtime.RaceErrors()
	raceLogOff = logSize()
	vsched.AbortHook = func(x *vsched.Exec) {
		raceAtAbort = runtime.RaceErrors()
		raceOffAt = logSize()
	}
	e.PostRun = func(x *vsched.Exec) {
		n := raceAtAbort - raceCount
		if n > 0 && x.Verdict == "" {
			text := ""
			if p := raceLogPath(); p != "" {
				if b, err := os.ReadFile(p); err == nil && int64(len(b)) >= raceOffAt && raceLogOff <= raceOffAt {
					text = string(b[raceLogOff:raceOffAt])
				}
			}
			reports := strings.Split(text, "==================")
			key := ""
			first := ""
			for _, r := range reports {
				if strings.Contains(r, "DATA RACE") {
					if first == "" {
						first = r
						key = raceKey(r)
					}
				}
			}
			x.Verdict = "race"
			x.Detail = "data race: " + key + "\n" + strings.TrimSpace(first)
			if len(x.Detail) > 6000 {
				x.Detail = x.Detail[:6000]
			}
		}
		raceCount = runtime.RaceErrors()
		raceLogOff = logSize()
	}
}
