#!/usr/bin/env python3
import json,sys
for line in sys.stdin:
    if not line.startswith('{"kind"'): continue
    r=json.loads(line); s=r.get('stats') or {}
    print('execs',s.get('executions'),'states',s.get('states'),'pruned',s.get('pruned'),'distinct',s.get('distinct_observation_logs'),'complete',s.get('complete'),'wall',round(r['wall_s'],2), 'err', r.get('error'))
    if s.get('counters'): print(' counters', s['counters'])
    for v in r.get('violations') or []:
        print(' VIOL', v['verdict'], '|', v['detail'][:1500]); print('   obs', v.get('obs'), 'replayed', v.get('replayed_identically'))
    e=r.get('enum')
    if e:
        print(' enum evals',e['evaluations'],'classes',len(e.get('classes') or []),'incomplete',e.get('incomplete'), 'counters', e.get('counters'))
        for v in e.get('violations') or []: print(' VIOL', v['key'],'|',v['case'][:300],'|',v['detail'][:600])
